package main

import (
	"fmt"
	"sort"
	"strings"

	"golang.org/x/tools/go/ssa"

	"bvcheck/internal/load"
	"bvcheck/internal/ssax"
)

// sibDiff: discovery aid. For every function that exists under the same (receiver, name) in at least
// three of the given sibling packages, print the callees (package prefix normalised) that most siblings
// call and one does not. Candidates for reading, never a verdict.
func sibDiff(p *load.Program, pkgs []string) {
	type key struct{ name string }
	by := map[string]map[string]*ssa.Function{}
	for _, pk := range pkgs {
		for _, f := range p.ModuleFuncs(pk) {
			if f.Parent() != nil {
				continue
			}
			n := ssax.FuncName(f)
			n = strings.ReplaceAll(n, pk+".", "$P.")
			if by[n] == nil {
				by[n] = map[string]*ssa.Function{}
			}
			by[n][pk] = f
		}
	}
	var names []string
	for n, m := range by {
		if len(m) >= 3 {
			names = append(names, n)
		}
	}
	sort.Strings(names)
	norm := func(pk, c string) string {
		c = strings.ReplaceAll(c, pk+".", "$P.")
		return c
	}
	var collect func(f *ssa.Function, pk string, out map[string]int)
	collect = func(f *ssa.Function, pk string, out map[string]int) {
		for _, b := range f.Blocks {
			for _, in := range b.Instrs {
				if cc := ssax.Common(in); cc != nil {
					c := norm(pk, ssax.CalleeName(cc))
					if strings.Contains(c, "zerolog") || strings.Contains(c, "logger.") || strings.HasPrefix(c, "builtin:") || strings.Contains(c, "fmt.") {
						continue
					}
					out[c]++
				}
			}
		}
		for _, a := range f.AnonFuncs {
			collect(a, pk, out)
		}
	}
	for _, n := range names {
		m := by[n]
		sets := map[string]map[string]int{}
		all := map[string]int{}
		for pk, f := range m {
			sets[pk] = map[string]int{}
			collect(f, pk, sets[pk])
			for c := range sets[pk] {
				all[c]++
			}
		}
		var lines []string
		for c, k := range all {
			if k == len(m) || k < len(m)-1 || k < 2 {
				continue
			}
			for pk := range m {
				if sets[pk][c] == 0 {
					lines = append(lines, fmt.Sprintf("    %-28s lacks %s", pk, c))
				}
			}
		}
		if len(lines) > 0 {
			sort.Strings(lines)
			fmt.Printf("%s  (%d siblings)\n%s\n", n, len(m), strings.Join(lines, "\n"))
		}
	}
}
