package main

import (
	"fmt"
	"go/types"
	"sort"
	"strings"

	"golang.org/x/tools/go/ssa"

	"bvcheck/internal/load"
	"bvcheck/internal/ssax"
)

// droppedErrors: discovery aid. Lists call sites in pkgs whose callee (name containing one of the
// substrings) returns an error that is never read.
func droppedErrors(p *load.Program, subs []string, pkgs []string) {
	var out []string
	for _, f := range p.ModuleFuncs(pkgs...) {
		pos := p.Position(f.Pos())
		if strings.Contains(pos, "benchmark_") || strings.Contains(pos, "migration_") {
			continue
		}
		for _, b := range f.Blocks {
			for _, in := range b.Instrs {
				cc := ssax.Common(in)
				if cc == nil {
					continue
				}
				name := ssax.CalleeName(cc)
				hit := false
				for _, s := range subs {
					if strings.Contains(name, s) {
						hit = true
					}
				}
				if !hit {
					continue
				}
				sig := cc.Signature()
				n := sig.Results().Len()
				if n == 0 || sig.Results().At(n-1).Type().String() != "error" {
					continue
				}
				used := false
				if c, ok := in.(*ssa.Call); ok {
					if refs := c.Referrers(); refs != nil {
						for _, r := range *refs {
							if n == 1 {
								if _, isDbg := r.(*ssa.DebugRef); !isDbg {
									used = true
								}
								continue
							}
							if ex, ok := r.(*ssa.Extract); ok && ex.Index == n-1 {
								if er := ex.Referrers(); er != nil && len(*er) > 0 {
									used = true
								}
							}
						}
					}
				}
				_ = types.Universe
				if !used {
					kind := "call"
					switch in.(type) {
					case *ssa.Defer:
						kind = "defer"
					case *ssa.Go:
						kind = "go"
					}
					out = append(out, fmt.Sprintf("%s: %s %s in %s", p.Position(in.Pos()), kind, name, ssax.FuncName(f)))
				}
			}
		}
	}
	sort.Strings(out)
	for _, l := range out {
		fmt.Println(l)
	}
	fmt.Println(len(out), "site(s)")
}
