// bvdump prints the SSA of one function with the rendered callee names and branch conditions the rules
// match on (debugging aid for rule authors).
package main

import (
	"fmt"
	"os"
	"strings"

	"golang.org/x/tools/go/ssa"

	"bvcheck/internal/load"
	"bvcheck/internal/rules"
	"bvcheck/internal/ssax"
)

func main() {
	p, err := load.Load(load.Options{Repo: "/repo", BinDir: "/verif/bin"})
	if err != nil {
		fmt.Println(err)
		os.Exit(1)
	}
	if len(os.Args) == 3 && os.Args[1] == "-switches" {
		listSwitches(p, os.Args[2])
		return
	}
	if len(os.Args) >= 4 && os.Args[1] == "-dropped" {
		droppedErrors(p, strings.Split(os.Args[2], ","), os.Args[3:])
		return
	}
	if len(os.Args) >= 3 && os.Args[1] == "-nilphi" {
		rules.NilPhiDerefs(p, os.Args[2:])
		return
	}
	if len(os.Args) >= 3 && os.Args[1] == "-swallowed" {
		rules.SwallowedErrors(p, os.Args[2:])
		return
	}
	if len(os.Args) >= 3 && os.Args[1] == "-lockdisc" {
		rules.LockDiscovery(p, os.Args[2:])
		return
	}
	if len(os.Args) >= 4 && os.Args[1] == "-sibdiff" {
		sibDiff(p, os.Args[2:])
		return
	}
	if len(os.Args) == 3 && os.Args[1] == "-calls" {
		grepCalls(p, os.Args[2])
		return
	}
	for i := 1; i+1 < len(os.Args); i += 2 {
		f := p.Func(os.Args[i], os.Args[i+1])
		if f == nil {
			fmt.Println("not found", os.Args[i], os.Args[i+1])
			continue
		}
		dump(f)
	}
}

func dump(f *ssa.Function) {
	f.WriteTo(os.Stdout)
	for _, b := range f.Blocks {
		for _, in := range b.Instrs {
			if cc := ssax.Common(in); cc != nil {
				fmt.Printf("  b%d call %q\n", b.Index, ssax.CalleeName(cc))
			}
			if iff, ok := in.(*ssa.If); ok {
				fmt.Printf("  b%d if %q\n", b.Index, ssax.Cond(iff.Cond))
			}
		}
	}
	for _, a := range f.AnonFuncs {
		dump(a)
	}
}
