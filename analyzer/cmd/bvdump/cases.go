package main

import (
	"fmt"
	"go/ast"
	"go/types"
	"sort"
	"strings"

	"bvcheck/internal/load"
	"bvcheck/internal/ssax"
)

// listSwitches prints functions having switch statements over the named type with their case constants.
func listSwitches(p *load.Program, typ string) {
	for _, f := range p.ModuleFuncs() {
		d, pk := p.FuncDecl(f)
		if d == nil || pk == nil {
			continue
		}
		set := map[string]bool{}
		ast.Inspect(d, func(n ast.Node) bool {
			sw, ok := n.(*ast.SwitchStmt)
			if !ok || sw.Tag == nil {
				return true
			}
			tv, ok := pk.TypesInfo.Types[sw.Tag]
			if !ok {
				return true
			}
			t := types.Unalias(tv.Type)
			nt, ok := t.(*types.Named)
			if !ok || nt.Obj().Name() != typ {
				return true
			}
			for _, cs := range sw.Body.List {
				for _, e := range cs.(*ast.CaseClause).List {
					set[types.ExprString(e)] = true
				}
			}
			return true
		})
		if len(set) > 0 {
			var ks []string
			for k := range set {
				ks = append(ks, k[strings.LastIndex(k, ".")+1:])
			}
			sort.Strings(ks)
			fmt.Printf("%s\t%s\t%s\n", p.Position(f.Pos()), ssax.FuncName(f), strings.Join(ks, ","))
		}
	}
}
