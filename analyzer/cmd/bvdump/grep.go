package main

import (
	"fmt"
	"regexp"

	"bvcheck/internal/load"
	"bvcheck/internal/ssax"
)

// grepCalls prints every call site in the module whose resolved callee name matches re.
func grepCalls(p *load.Program, pat string) {
	re := regexp.MustCompile(pat)
	for _, f := range p.ModuleFuncs() {
		for _, b := range f.Blocks {
			for _, in := range b.Instrs {
				if cc := ssax.Common(in); cc != nil {
					if n := ssax.CalleeName(cc); re.MatchString(n) {
						fmt.Printf("%s\t%s\t%s\n", p.Position(in.Pos()), ssax.FuncName(f), n)
					}
				}
			}
		}
	}
}
