// pbgen: minimal proto3 front end -> FileDescriptorProto -> protoc-gen-go (real plugin) + typed stubs
// for grpc / validate / gateway, so that the repository type-checks without protoc/buf.
package main

import (
	"bytes"
	"fmt"
	"os"
	"os/exec"
	"path/filepath"
	"sort"
	"strconv"
	"strings"
	"unicode"

	"google.golang.org/protobuf/proto"
	"google.golang.org/protobuf/reflect/protodesc"
	"google.golang.org/protobuf/types/descriptorpb"
	"google.golang.org/protobuf/types/known/anypb"
	"google.golang.org/protobuf/types/known/durationpb"
	"google.golang.org/protobuf/types/known/structpb"
	"google.golang.org/protobuf/types/known/timestamppb"
	"google.golang.org/protobuf/types/pluginpb"
)

// ---------- lexer ----------

type tok struct {
	kind byte // 'i' ident, 'n' number, 's' string, 'p' punct, 0 EOF
	s    string
	line int
}

func lex(src string) []tok {
	var out []tok
	line := 1
	i := 0
	for i < len(src) {
		c := src[i]
		switch {
		case c == '\n':
			line++
			i++
		case c == ' ' || c == '\t' || c == '\r':
			i++
		case c == '/' && i+1 < len(src) && src[i+1] == '/':
			for i < len(src) && src[i] != '\n' {
				i++
			}
		case c == '/' && i+1 < len(src) && src[i+1] == '*':
			j := strings.Index(src[i+2:], "*/")
			if j < 0 {
				panic("unterminated comment")
			}
			line += strings.Count(src[i:i+2+j+2], "\n")
			i += 2 + j + 2
		case c == '"' || c == '\'':
			j := i + 1
			var sb strings.Builder
			for j < len(src) && src[j] != c {
				if src[j] == '\\' && j+1 < len(src) {
					sb.WriteByte(src[j])
					j++
				}
				sb.WriteByte(src[j])
				j++
			}
			out = append(out, tok{'s', sb.String(), line})
			i = j + 1
		case unicode.IsLetter(rune(c)) || c == '_':
			j := i
			for j < len(src) && (unicode.IsLetter(rune(src[j])) || unicode.IsDigit(rune(src[j])) || src[j] == '_' || src[j] == '.') {
				j++
			}
			out = append(out, tok{'i', src[i:j], line})
			i = j
		case unicode.IsDigit(rune(c)) || (c == '-' && i+1 < len(src) && unicode.IsDigit(rune(src[i+1]))):
			j := i + 1
			for j < len(src) && (unicode.IsLetter(rune(src[j])) || unicode.IsDigit(rune(src[j])) || src[j] == '.' || src[j] == '+' || src[j] == '-') {
				j++
			}
			out = append(out, tok{'n', src[i:j], line})
			i = j
		default:
			out = append(out, tok{'p', string(c), line})
			i++
		}
	}
	out = append(out, tok{0, "", line})
	return out
}

// ---------- parser ----------

type parser struct {
	file string
	t    []tok
	p    int
}

func (p *parser) peek() tok { return p.t[p.p] }
func (p *parser) next() tok { t := p.t[p.p]; p.p++; return t }
func (p *parser) fail(msg string) {
	panic(fmt.Sprintf("%s:%d: %s (at %q)", p.file, p.peek().line, msg, p.peek().s))
}
func (p *parser) expect(s string) {
	if p.peek().s != s {
		p.fail("expected " + s)
	}
	p.p++
}
func (p *parser) accept(s string) bool {
	if p.peek().s == s && p.peek().kind != 's' {
		p.p++
		return true
	}
	return false
}
func (p *parser) ident() string {
	t := p.next()
	if t.kind != 'i' {
		p.p--
		p.fail("expected identifier")
	}
	return t.s
}

// skipBalanced skips an option value / aggregate up to (not including) a terminator at depth 0.
func (p *parser) skipUntil(terms ...string) {
	depth := 0
	for {
		t := p.peek()
		if t.kind == 0 {
			p.fail("unexpected EOF")
		}
		if t.kind == 'p' {
			if depth == 0 {
				for _, x := range terms {
					if t.s == x {
						return
					}
				}
			}
			switch t.s {
			case "{", "[", "(":
				depth++
			case "}", "]", ")":
				depth--
			}
		}
		p.p++
	}
}

func (p *parser) skipFieldOptions() {
	if p.accept("[") {
		depth := 1
		for depth > 0 {
			t := p.next()
			if t.kind == 0 {
				p.fail("EOF in options")
			}
			if t.kind == 'p' {
				switch t.s {
				case "[", "{":
					depth++
				case "]", "}":
					depth--
				}
			}
		}
	}
}

var scalar = map[string]descriptorpb.FieldDescriptorProto_Type{
	"double": descriptorpb.FieldDescriptorProto_TYPE_DOUBLE, "float": descriptorpb.FieldDescriptorProto_TYPE_FLOAT,
	"int64": descriptorpb.FieldDescriptorProto_TYPE_INT64, "uint64": descriptorpb.FieldDescriptorProto_TYPE_UINT64,
	"int32": descriptorpb.FieldDescriptorProto_TYPE_INT32, "fixed64": descriptorpb.FieldDescriptorProto_TYPE_FIXED64,
	"fixed32": descriptorpb.FieldDescriptorProto_TYPE_FIXED32, "bool": descriptorpb.FieldDescriptorProto_TYPE_BOOL,
	"string": descriptorpb.FieldDescriptorProto_TYPE_STRING, "bytes": descriptorpb.FieldDescriptorProto_TYPE_BYTES,
	"uint32": descriptorpb.FieldDescriptorProto_TYPE_UINT32, "sfixed32": descriptorpb.FieldDescriptorProto_TYPE_SFIXED32,
	"sfixed64": descriptorpb.FieldDescriptorProto_TYPE_SFIXED64, "sint32": descriptorpb.FieldDescriptorProto_TYPE_SINT32,
	"sint64": descriptorpb.FieldDescriptorProto_TYPE_SINT64,
}

func (p *parser) parseFile() *descriptorpb.FileDescriptorProto {
	fd := &descriptorpb.FileDescriptorProto{Name: proto.String(p.file), Options: &descriptorpb.FileOptions{}}
	for p.peek().kind != 0 {
		switch {
		case p.accept(";"):
		case p.accept("syntax"):
			p.expect("=")
			fd.Syntax = proto.String(p.next().s)
			p.expect(";")
		case p.accept("package"):
			fd.Package = proto.String(p.ident())
			p.expect(";")
		case p.accept("import"):
			if p.peek().s == "public" || p.peek().s == "weak" {
				p.p++
			}
			fd.Dependency = append(fd.Dependency, p.next().s)
			p.expect(";")
		case p.accept("option"):
			name := ""
			if p.peek().kind == 'i' {
				name = p.peek().s
			}
			p.skipUntil("=")
			p.expect("=")
			if name == "go_package" {
				fd.Options.GoPackage = proto.String(p.peek().s)
			}
			p.skipUntil(";")
			p.expect(";")
		case p.accept("message"):
			fd.MessageType = append(fd.MessageType, p.parseMessage())
		case p.accept("enum"):
			fd.EnumType = append(fd.EnumType, p.parseEnum())
		case p.accept("service"):
			fd.Service = append(fd.Service, p.parseService())
		default:
			p.fail("unexpected top-level token")
		}
	}
	return fd
}

func (p *parser) parseEnum() *descriptorpb.EnumDescriptorProto {
	e := &descriptorpb.EnumDescriptorProto{Name: proto.String(p.ident())}
	p.expect("{")
	for !p.accept("}") {
		switch {
		case p.accept(";"):
		case p.accept("option"):
			p.skipUntil(";")
			p.expect(";")
		case p.accept("reserved"):
			p.skipUntil(";")
			p.expect(";")
		default:
			name := p.ident()
			p.expect("=")
			n, err := strconv.ParseInt(p.next().s, 0, 32)
			if err != nil {
				p.fail("bad enum number")
			}
			p.skipFieldOptions()
			p.expect(";")
			e.Value = append(e.Value, &descriptorpb.EnumValueDescriptorProto{Name: proto.String(name), Number: proto.Int32(int32(n))})
		}
	}
	return e
}

func camel(s string) string { // protoc's ToCamelCase for map entry names
	var b strings.Builder
	up := true
	for _, r := range s {
		if r == '_' {
			up = true
			continue
		}
		if up {
			b.WriteRune(unicode.ToUpper(r))
			up = false
		} else {
			b.WriteRune(r)
		}
	}
	return b.String()
}

func jsonName(s string) string {
	var b strings.Builder
	up := false
	for _, r := range s {
		if r == '_' {
			up = true
			continue
		}
		if up {
			b.WriteRune(unicode.ToUpper(r))
			up = false
		} else {
			b.WriteRune(r)
		}
	}
	return b.String()
}

func (p *parser) setType(f *descriptorpb.FieldDescriptorProto, typ string) {
	if st, ok := scalar[typ]; ok {
		f.Type = st.Enum()
	} else {
		f.TypeName = proto.String(typ) // resolved later
	}
}

func (p *parser) parseField(m *descriptorpb.DescriptorProto, oneofIdx int32) {
	f := &descriptorpb.FieldDescriptorProto{Label: descriptorpb.FieldDescriptorProto_LABEL_OPTIONAL.Enum()}
	optional := false
	if oneofIdx < 0 {
		if p.accept("repeated") {
			f.Label = descriptorpb.FieldDescriptorProto_LABEL_REPEATED.Enum()
		} else if p.accept("optional") {
			optional = true
		}
	}
	if p.peek().s == "map" && p.t[p.p+1].s == "<" {
		p.p += 2
		kt := p.ident()
		p.expect(",")
		vt := p.ident()
		p.expect(">")
		name := p.ident()
		p.expect("=")
		num, _ := strconv.Atoi(p.next().s)
		p.skipFieldOptions()
		p.expect(";")
		entry := &descriptorpb.DescriptorProto{Name: proto.String(camel(name) + "Entry"), Options: &descriptorpb.MessageOptions{MapEntry: proto.Bool(true)}}
		kf := &descriptorpb.FieldDescriptorProto{Name: proto.String("key"), JsonName: proto.String("key"), Number: proto.Int32(1), Label: descriptorpb.FieldDescriptorProto_LABEL_OPTIONAL.Enum()}
		p.setType(kf, kt)
		vf := &descriptorpb.FieldDescriptorProto{Name: proto.String("value"), JsonName: proto.String("value"), Number: proto.Int32(2), Label: descriptorpb.FieldDescriptorProto_LABEL_OPTIONAL.Enum()}
		p.setType(vf, vt)
		entry.Field = []*descriptorpb.FieldDescriptorProto{kf, vf}
		m.NestedType = append(m.NestedType, entry)
		f.Name = proto.String(name)
		f.JsonName = proto.String(jsonName(name))
		f.Number = proto.Int32(int32(num))
		f.Label = descriptorpb.FieldDescriptorProto_LABEL_REPEATED.Enum()
		f.TypeName = proto.String(entry.GetName())
		m.Field = append(m.Field, f)
		return
	}
	typ := p.ident()
	name := p.ident()
	p.expect("=")
	num, err := strconv.Atoi(p.next().s)
	if err != nil {
		p.fail("bad field number")
	}
	p.skipFieldOptions()
	p.expect(";")
	f.Name = proto.String(name)
	f.JsonName = proto.String(jsonName(name))
	f.Number = proto.Int32(int32(num))
	p.setType(f, typ)
	if oneofIdx >= 0 {
		f.OneofIndex = proto.Int32(oneofIdx)
	}
	if optional {
		f.Proto3Optional = proto.Bool(true)
	}
	m.Field = append(m.Field, f)
}

func (p *parser) parseMessage() *descriptorpb.DescriptorProto {
	m := &descriptorpb.DescriptorProto{Name: proto.String(p.ident())}
	p.expect("{")
	for !p.accept("}") {
		switch {
		case p.accept(";"):
		case p.accept("option"):
			p.skipUntil(";")
			p.expect(";")
		case p.accept("reserved"):
			p.skipUntil(";")
			p.expect(";")
		case p.peek().s == "message" && p.t[p.p+1].kind == 'i' && p.t[p.p+2].s == "{":
			p.p++
			m.NestedType = append(m.NestedType, p.parseMessage())
		case p.peek().s == "enum" && p.t[p.p+1].kind == 'i' && p.t[p.p+2].s == "{":
			p.p++
			m.EnumType = append(m.EnumType, p.parseEnum())
		case p.peek().s == "oneof" && p.t[p.p+1].kind == 'i' && p.t[p.p+2].s == "{":
			p.p++
			idx := int32(len(m.OneofDecl))
			m.OneofDecl = append(m.OneofDecl, &descriptorpb.OneofDescriptorProto{Name: proto.String(p.ident())})
			p.expect("{")
			for !p.accept("}") {
				if p.accept("option") {
					p.skipUntil(";")
					p.expect(";")
					continue
				}
				p.parseField(m, idx)
			}
		default:
			p.parseField(m, -1)
		}
	}
	// proto3 optional -> synthetic oneofs, placed after real oneofs
	for _, f := range m.Field {
		if f.GetProto3Optional() {
			f.OneofIndex = proto.Int32(int32(len(m.OneofDecl)))
			m.OneofDecl = append(m.OneofDecl, &descriptorpb.OneofDescriptorProto{Name: proto.String("_" + f.GetName())})
		}
	}
	return m
}

func (p *parser) parseService() *descriptorpb.ServiceDescriptorProto {
	s := &descriptorpb.ServiceDescriptorProto{Name: proto.String(p.ident())}
	p.expect("{")
	for !p.accept("}") {
		switch {
		case p.accept(";"):
		case p.accept("option"):
			p.skipUntil(";")
			p.expect(";")
		case p.accept("rpc"):
			m := &descriptorpb.MethodDescriptorProto{Name: proto.String(p.ident())}
			p.expect("(")
			if p.accept("stream") {
				m.ClientStreaming = proto.Bool(true)
			}
			m.InputType = proto.String(p.ident())
			p.expect(")")
			p.expect("returns")
			p.expect("(")
			if p.accept("stream") {
				m.ServerStreaming = proto.Bool(true)
			}
			m.OutputType = proto.String(p.ident())
			p.expect(")")
			if p.accept("{") {
				depth := 1
				for depth > 0 {
					t := p.next()
					if t.kind == 0 {
						p.fail("EOF in rpc body")
					}
					if t.kind == 'p' && t.s == "{" {
						depth++
					}
					if t.kind == 'p' && t.s == "}" {
						depth--
					}
				}
			} else {
				p.expect(";")
			}
			s.Method = append(s.Method, m)
		default:
			p.fail("unexpected token in service")
		}
	}
	return s
}

// ---------- type resolution ----------

type symtab map[string]bool // fully-qualified name (leading dot) -> isEnum

func collect(prefix string, msgs []*descriptorpb.DescriptorProto, enums []*descriptorpb.EnumDescriptorProto, st symtab) {
	for _, e := range enums {
		st[prefix+"."+e.GetName()] = true
	}
	for _, m := range msgs {
		st[prefix+"."+m.GetName()] = false
		collect(prefix+"."+m.GetName(), m.NestedType, m.EnumType, st)
	}
}

func resolve(name, scope string, st symtab) (string, bool, bool) {
	if strings.HasPrefix(name, ".") {
		e, ok := st[name]
		return name, e, ok
	}
	first := name
	if i := strings.Index(name, "."); i >= 0 {
		first = name[:i]
	}
	for s := scope; ; {
		cand := s + "." + first
		// the first component must exist as a symbol or package prefix at this scope
		full := s + "." + name
		if e, ok := st[full]; ok {
			return full, e, true
		}
		_ = cand
		if s == "" {
			break
		}
		if i := strings.LastIndex(s, "."); i >= 0 {
			s = s[:i]
		} else {
			s = ""
		}
	}
	return "", false, false
}

func resolveMsg(m *descriptorpb.DescriptorProto, scope string, st symtab, file string) {
	self := scope + "." + m.GetName()
	for _, f := range m.Field {
		if f.TypeName != nil {
			full, isEnum, ok := resolve(f.GetTypeName(), self, st)
			if !ok {
				panic(fmt.Sprintf("%s: cannot resolve type %q in %s", file, f.GetTypeName(), self))
			}
			f.TypeName = proto.String(full)
			if isEnum {
				f.Type = descriptorpb.FieldDescriptorProto_TYPE_ENUM.Enum()
			} else {
				f.Type = descriptorpb.FieldDescriptorProto_TYPE_MESSAGE.Enum()
			}
		}
	}
	for _, n := range m.NestedType {
		resolveMsg(n, self, st, file)
	}
}

func main() {
	root := os.Args[1]   // e.g. /repo/api/proto
	outdir := os.Args[2] // generated files written as outdir/<source_relative>
	plugin := os.Args[3]
	var files []string
	filepath.Walk(root, func(path string, info os.FileInfo, err error) error {
		if err == nil && strings.HasSuffix(path, ".proto") {
			rel, _ := filepath.Rel(root, path)
			files = append(files, rel)
		}
		return nil
	})
	sort.Strings(files)
	parsed := map[string]*descriptorpb.FileDescriptorProto{}
	st := symtab{}
	wk := []*descriptorpb.FileDescriptorProto{
		protodesc.ToFileDescriptorProto(timestamppb.File_google_protobuf_timestamp_proto),
		protodesc.ToFileDescriptorProto(durationpb.File_google_protobuf_duration_proto),
		protodesc.ToFileDescriptorProto(structpb.File_google_protobuf_struct_proto),
		protodesc.ToFileDescriptorProto(anypb.File_google_protobuf_any_proto),
	}
	for _, w := range wk {
		parsed[w.GetName()] = w
		collect("."+w.GetPackage(), w.MessageType, w.EnumType, st)
	}
	for _, f := range files {
		src, err := os.ReadFile(filepath.Join(root, f))
		if err != nil {
			panic(err)
		}
		p := &parser{file: f, t: lex(string(src))}
		fd := p.parseFile()
		// drop option-only imports (their descriptors are not needed once options are discarded)
		var deps []string
		for _, d := range fd.Dependency {
			if strings.HasPrefix(d, "validate/") || strings.HasPrefix(d, "google/api/") || strings.HasPrefix(d, "protoc-gen-openapiv2/") {
				continue
			}
			deps = append(deps, d)
		}
		fd.Dependency = deps
		parsed[f] = fd
		collect("."+fd.GetPackage(), fd.MessageType, fd.EnumType, st)
	}
	for _, f := range files {
		fd := parsed[f]
		scope := "." + fd.GetPackage()
		for _, m := range fd.MessageType {
			resolveMsg(m, scope, st, f)
		}
		for _, s := range fd.Service {
			for _, m := range s.Method {
				in, _, ok := resolve(m.GetInputType(), scope, st)
				out, _, ok2 := resolve(m.GetOutputType(), scope, st)
				if !ok || !ok2 {
					panic(fmt.Sprintf("%s: cannot resolve rpc types of %s", f, m.GetName()))
				}
				m.InputType, m.OutputType = proto.String(in), proto.String(out)
			}
		}
	}
	// topological order
	var order []*descriptorpb.FileDescriptorProto
	seen := map[string]bool{}
	var visit func(string)
	visit = func(n string) {
		if seen[n] {
			return
		}
		seen[n] = true
		fd, ok := parsed[n]
		if !ok {
			panic("missing import " + n)
		}
		for _, d := range fd.Dependency {
			visit(d)
		}
		order = append(order, fd)
	}
	for _, f := range files {
		visit(f)
	}
	req := &pluginpb.CodeGeneratorRequest{FileToGenerate: files, Parameter: proto.String("paths=source_relative"), ProtoFile: order}
	in, err := proto.Marshal(req)
	if err != nil {
		panic(err)
	}
	cmd := exec.Command(plugin)
	cmd.Stdin = bytes.NewReader(in)
	var out bytes.Buffer
	cmd.Stdout = &out
	cmd.Stderr = os.Stderr
	if err := cmd.Run(); err != nil {
		panic(err)
	}
	resp := &pluginpb.CodeGeneratorResponse{}
	if err := proto.Unmarshal(out.Bytes(), resp); err != nil {
		panic(err)
	}
	if resp.Error != nil {
		panic("plugin: " + resp.GetError())
	}
	for _, f := range resp.File {
		dst := filepath.Join(outdir, f.GetName())
		os.MkdirAll(filepath.Dir(dst), 0o755)
		if err := os.WriteFile(dst, []byte(f.GetContent()), 0o644); err != nil {
			panic(err)
		}
	}
	fmt.Printf("parsed %d proto files, generated %d go files\n", len(files), len(resp.File))
	// stubs for grpc / validate / gateway
	for _, fd := range parsed {
		indexSymbols(fd)
	}
	for _, f := range files {
		writeStubs(parsed[f], outdir, st)
	}
}
