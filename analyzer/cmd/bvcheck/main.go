package main

import (
	"fmt"
	"os"

	"bvcheck/internal/load"
)

func main() {
	p, err := load.Load(load.Options{Repo: "/repo", BinDir: "/verif/bin"})
	if err != nil {
		fmt.Println("ERR", err)
		os.Exit(2)
	}
	fmt.Println(len(p.Roots), p.Timings, len(p.TypeErrs))
	for _, e := range p.TypeErrs {
		fmt.Println(e)
	}
	fmt.Println(p.Func("banyand/measure", "(*tsTable).mustAddMemPart"))
	fmt.Println(len(p.ModuleFuncs("banyand", "pkg")))
}
