// bvcheck decides the structural clauses of properties C01..C20 of apache/skywalking-banyandb from the
// source under -repo, without running it. See /verif/DESIGN.md.
package main

import (
	"crypto/sha256"
	"encoding/hex"
	"encoding/json"
	"flag"
	"fmt"
	"io"
	"os"
	"path/filepath"
	"runtime/debug"
	"sort"
	"strconv"
	"strings"
	"sync"
	"syscall"
	"time"

	"bvcheck/internal/core"
	"bvcheck/internal/load"
	"bvcheck/internal/rules"
)

func main() {
	prop := flag.String("prop", "", "property id (C01..C20) or 'all'")
	tier := flag.String("tier", "quick", "quick|thorough")
	repo := flag.String("repo", "/repo", "repository root")
	verif := flag.String("verif", "/verif", "verification root")
	list := flag.Bool("list", false, "list properties")
	nocache := flag.Bool("nocache", os.Getenv("VERIF_NOCACHE") == "1", "ignore cached verdicts")
	only := flag.String("only", "", "analyse only these comma-separated properties (no cache); for self-tests")
	replay := flag.String("replay", "", "re-evaluate the obligation named in a violation file")
	verbose := flag.Bool("v", false, "print every obligation")
	genManifest := flag.Bool("gen-manifest", false, "print MANIFEST.json for the registered properties")
	flag.Parse()
	if *genManifest {
		os.Stdout.Write(rules.Manifest())
		return
	}
	if t := os.Getenv("VERIF_TIER"); t == "quick" || t == "thorough" {
		*tier = t
	}
	if *list {
		for _, p := range rules.All {
			fmt.Println(p.ID, p.Title)
		}
		return
	}
	if *replay != "" {
		b, err := os.ReadFile(*replay)
		if err != nil {
			fmt.Println(err)
			os.Exit(2)
		}
		var v struct {
			Property string `json:"property"`
			Tier     string `json:"tier"`
		}
		json.Unmarshal(b, &v)
		*prop, *tier, *nocache = v.Property, v.Tier, true
	}
	// watchdog: an analysis that does not finish is a checker fault, never a silent pass
	time.AfterFunc(20*time.Minute, func() {
		fmt.Println("bvcheck: analysis exceeded 20 minutes; aborting")
		fmt.Printf("VIOLATION property=%s replay=%s\n", *prop, "checker-timeout")
		os.Exit(1)
	})
	seed, _ := strconv.ParseInt(os.Getenv("VERIF_SEED"), 10, 64)
	byID := map[string]*core.Property{}
	for _, p := range rules.All {
		byID[p.ID] = p
	}
	var want []*core.Property
	if *prop == "all" {
		want = rules.All
	} else if p, ok := byID[*prop]; ok {
		want = []*core.Property{p}
	} else {
		fmt.Println("unknown property", *prop)
		os.Exit(2)
	}
	known, err := core.LoadKnown(filepath.Join(*verif, "KNOWN_FINDINGS.txt"))
	if err != nil {
		fmt.Println("known findings:", err)
		os.Exit(2)
	}
	onlySet := map[string]bool{}
	for _, id := range strings.Split(*only, ",") {
		if id != "" {
			onlySet[id] = true
		}
	}
	results, err := analyse(*repo, *verif, *tier, *nocache, onlySet)
	if err != nil {
		fmt.Println("analysis failed:", err)
		for _, p := range want {
			fmt.Printf("VIOLATION property=%s replay=%s\n", p.ID, "analysis-failed")
		}
		os.Exit(1)
	}
	exit := 0
	cmdline := strings.Join(os.Args, " ")
	for _, p := range want {
		r, ok := results[p.ID]
		if !ok {
			fmt.Println("no result for", p.ID)
			exit = 1
			continue
		}
		if *verbose {
			for _, o := range r.Obligations {
				fmt.Printf("  %-9s [%s] %s @%s — %s\n", o.Status, o.Rule, o.Construct, o.Pos, o.Detail)
			}
		}
		if e := core.Emit(r, p, known, filepath.Join(*verif, "evidence"), seed, cmdline); e > exit {
			exit = e
		}
	}
	os.Exit(exit)
}

// treeHash hashes every input of the analysis: the repository's Go and proto sources, module files, the
// checker binary, the tier.
func treeHash(repo, tier string) (string, error) {
	h := sha256.New()
	var files []string
	err := filepath.Walk(repo, func(p string, info os.FileInfo, err error) error {
		if err != nil {
			return nil
		}
		if info.IsDir() {
			n := info.Name()
			if n == ".git" || n == "node_modules" || (n == "ui" && filepath.Dir(p) == repo) {
				return filepath.SkipDir
			}
			return nil
		}
		if strings.HasSuffix(p, ".go") || strings.HasSuffix(p, ".proto") || strings.HasSuffix(p, "go.mod") || strings.HasSuffix(p, "go.sum") {
			files = append(files, p)
		}
		return nil
	})
	if err != nil {
		return "", err
	}
	sort.Strings(files)
	for _, f := range files {
		b, err := os.ReadFile(f)
		if err != nil {
			continue
		}
		fmt.Fprintf(h, "%s\x00%d\x00", f, len(b))
		h.Write(b)
	}
	if exe, err := os.Executable(); err == nil {
		if f, err := os.Open(exe); err == nil {
			io.Copy(h, f)
			f.Close()
		}
	}
	for _, t := range []string{"pbgen", "protoc-gen-go"} {
		if exe, err := os.Executable(); err == nil {
			if b, err := os.ReadFile(filepath.Join(filepath.Dir(exe), t)); err == nil {
				h.Write(b)
			}
		}
	}
	fmt.Fprintf(h, "tier=%s files=%d", tier, len(files))
	return hex.EncodeToString(h.Sum(nil))[:24], nil
}

// analyse returns the verdicts of all properties for the current tree, from the cache when the tree,
// checker and tier are unchanged, otherwise by running the whole analysis once (under a file lock, so
// concurrent invocations for different properties share one run).
func analyse(repo, verif, tier string, nocache bool, only map[string]bool) (map[string]core.Result, error) {
	hash, err := treeHash(repo, tier)
	if err != nil {
		return nil, err
	}
	cacheRoot := filepath.Join(verif, ".cache")
	os.MkdirAll(cacheRoot, 0o755)
	lock, err := os.OpenFile(filepath.Join(cacheRoot, "lock"), os.O_CREATE|os.O_RDWR, 0o644)
	if err == nil {
		syscall.Flock(int(lock.Fd()), syscall.LOCK_EX)
		defer func() { syscall.Flock(int(lock.Fd()), syscall.LOCK_UN); lock.Close() }()
	}
	cfile := filepath.Join(cacheRoot, hash+".json")
	if !nocache && len(only) == 0 {
		if b, err := os.ReadFile(cfile); err == nil {
			var m map[string]core.Result
			if json.Unmarshal(b, &m) == nil && len(m) == len(rules.All) {
				return m, nil
			}
		}
	}
	t0 := time.Now()
	exe, _ := os.Executable()
	p, err := load.Load(load.Options{Repo: repo, BinDir: filepath.Dir(exe)})
	if err != nil {
		return nil, err
	}
	if len(p.TypeErrs) > 0 {
		fmt.Printf("note: %d type error(s) in module packages; rules whose decisive facts are untyped become undecided\n", len(p.TypeErrs))
		for i, e := range p.TypeErrs {
			if i < 10 {
				fmt.Println("  ", e)
			}
		}
	}
	shared := time.Since(t0).Seconds()
	out := map[string]core.Result{}
	var mu sync.Mutex
	var wg sync.WaitGroup
	sem := make(chan struct{}, 8)
	for _, pr := range rules.All {
		if len(only) > 0 && !only[pr.ID] {
			continue
		}
		wg.Add(1)
		go func(pr *core.Property) {
			defer wg.Done()
			sem <- struct{}{}
			defer func() { <-sem }()
			c := &core.Ctx{P: p, Tier: tier, Prop: pr.ID}
			t1 := time.Now()
			pan := ""
			func() {
				defer func() {
					if r := recover(); r != nil {
						pan = fmt.Sprintf("%v\n%s", r, debug.Stack())
					}
				}()
				c.Stat("packages_loaded", len(p.Roots))
				c.Stat("type_errors", len(p.TypeErrs))
				pr.Run(c)
			}()
			r := core.Finalize(c)
			r.Panic = pan
			r.WallS = shared + time.Since(t1).Seconds()
			mu.Lock()
			out[pr.ID] = r
			mu.Unlock()
		}(pr)
	}
	wg.Wait()
	for id, r := range out {
		r.Timings = map[string]float64{}
		for k, v := range p.Timings {
			r.Timings[k] = v
		}
		out[id] = r
	}
	// prune old cache entries, then store
	if ents, err := os.ReadDir(cacheRoot); err == nil {
		for _, e := range ents {
			if strings.HasSuffix(e.Name(), ".json") {
				if info, err := e.Info(); err == nil && time.Since(info.ModTime()) > 6*time.Hour {
					os.Remove(filepath.Join(cacheRoot, e.Name()))
				}
			}
		}
	}
	if b, err := json.Marshal(out); err == nil && len(only) == 0 {
		os.WriteFile(cfile, b, 0o644)
	}
	return out, nil
}
