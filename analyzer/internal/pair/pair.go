// Package pair is engine E2: acquire/release pairing on SSA. For one acquire site it computes the values
// that may hold the acquired resource (aliases through phis, local cells, closures' captured cells,
// conversions, element loads of an acquired slice), the events that discharge the obligation (a release
// call or defer on an alias, a deferred closure that releases, an ownership transfer), and searches the CFG
// for a path from the acquire to a function exit that meets none of them. Nil outcomes of nil tests on an
// alias, and the error outcome of the acquire's own error result, are pruned (nothing was acquired).
package pair

import (
	"fmt"
	"go/token"
	"go/types"
	"sort"

	"golang.org/x/tools/go/ssa"

	"bvcheck/internal/ssax"
)

// Kind describes a resource kind.
type Kind struct {
	Name     string
	Release  func(calleeName string) bool // release methods/functions (receiver or first arg = resource)
	Consumes func(calleeName string, argIndex int) bool
	// ConsumesCall, when set, is a computed ownership summary for static callees
	ConsumesCall func(cc *ssa.CallCommon, argIndex int) bool
}

// Event is something that discharges (or transfers) the obligation.
type Event struct {
	In   ssa.Instruction
	What string // release | defer-release | defer-closure | return | store | send | closure | consume | append-store
}

// Site is the analysis result for one acquire.
type Site struct {
	Acquire  ssa.Instruction
	Fn       *ssa.Function
	Events   []Event
	LeakExit ssa.Instruction // non-nil: exit reachable without any event
	LeakPath []int
	Double   [2]ssa.Instruction // non-nil: second release reachable after a first
	UseAfter [2]ssa.Instruction // non-nil: [release, later use of the released value]
	Owners   []string           // named struct types the resource was stored into (Type.field)
	aliases  map[ssa.Value]bool
}

// AnalyzeCall analyses the acquire call acq whose acquired resource is result index resIdx (-1 when the
// call has a single result). errIdx is the index of the error result coupled with the resource (-1 none).
func AnalyzeCall(k *Kind, acq ssa.Instruction, resIdx, errIdx int) *Site {
	call, _ := acq.(ssa.Value)
	var roots []ssa.Value
	errVals := map[ssa.Value]bool{}
	if resIdx < 0 {
		roots = append(roots, call)
	} else {
		for _, ref := range *call.Referrers() {
			if ex, ok := ref.(*ssa.Extract); ok {
				if ex.Index == resIdx {
					roots = append(roots, ex)
				}
				if ex.Index == errIdx {
					errVals[ex] = true
				}
			}
		}
	}
	return Analyze(k, acq.Parent(), acq, roots, errVals)
}

// Analyze: the resource is held in roots from instruction start on (nil = function entry, for an owned
// parameter). errVals are error values whose non-nil outcome means nothing was acquired.
func Analyze(k *Kind, fn *ssa.Function, start ssa.Instruction, roots []ssa.Value, errVals map[ssa.Value]bool) *Site {
	acq := start
	s := &Site{Acquire: acq, Fn: fn, aliases: map[ssa.Value]bool{}}
	// alias closure
	cells := map[ssa.Value]bool{} // Alloc cells (and FreeVars bound to them) that hold the resource
	work := append([]ssa.Value(nil), roots...)
	srcs := map[ssa.Value][]ssa.Value{}
	var cur ssa.Value
	add := func(v ssa.Value) {
		if v == nil {
			return
		}
		srcs[v] = append(srcs[v], cur)
		if !s.aliases[v] {
			s.aliases[v] = true
			work = append(work, v)
		}
	}
	isRoot := map[ssa.Value]bool{}
	for _, r := range roots {
		isRoot[r] = true
	}
	for _, r := range roots {
		s.aliases[r] = true
	}
	var closures []*ssa.MakeClosure
	for len(work) > 0 {
		v := work[len(work)-1]
		work = work[:len(work)-1]
		cur = v
		refs := v.Referrers()
		if refs == nil {
			continue
		}
		for _, ref := range *refs {
			switch x := ref.(type) {
			case *ssa.Phi:
				add(x)
			case *ssa.ChangeType:
				add(x)
			case *ssa.ChangeInterface:
				add(x)
			case *ssa.MakeInterface:
				add(x)
			case *ssa.TypeAssert:
				add(x)
			case *ssa.Extract:
				if !cells[v] {
					// extracts of a tuple alias (type assert comma-ok)
					if x.Index == 0 {
						add(x)
					}
				}
			case *ssa.Store:
				if x.Val == v && !cells[v] {
					if al, ok := x.Addr.(*ssa.Alloc); ok {
						if !cells[al] {
							cells[al] = true
							work = append(work, al)
						}
					}
				}
			case *ssa.UnOp:
				if x.Op == token.MUL && cells[v] {
					add(x)
				}
			case *ssa.Index:
				if x.X == v && !cells[v] {
					add(x)
				}
			case *ssa.IndexAddr:
				if x.X == v && !cells[v] {
					// element address of an acquired slice: loads are aliases
					cells[x] = true
					work = append(work, x)
				}
			case *ssa.Slice:
				if x.X == v && !cells[v] {
					add(x)
				}
			case *ssa.Range:
				if x.X == v {
					add(x)
				}
			case *ssa.Next:
				add(x)
			case *ssa.MakeClosure:
				if cells[v] {
					closures = append(closures, x)
					fnc := x.Fn.(*ssa.Function)
					for i, b := range x.Bindings {
						if b == v && i < len(fnc.FreeVars) {
							fv := fnc.FreeVars[i]
							if !cells[fv] {
								cells[fv] = true
								work = append(work, fv)
							}
						}
					}
				}
			}
		}
	}
	isAlias := func(v ssa.Value) bool { return s.aliases[v] }
	var eventOf func(in ssa.Instruction, isAlias func(ssa.Value) bool) string
	eventOf = func(in ssa.Instruction, isAlias func(ssa.Value) bool) string {
		releaseOn := func(cc *ssa.CallCommon) bool {
			if cc == nil {
				return false
			}
			n := ssax.CalleeName(cc)
			if !k.Release(n) {
				return false
			}
			if cc.IsInvoke() {
				return isAlias(cc.Value)
			}
			for _, a := range cc.Args {
				if isAlias(a) {
					return true
				}
			}
			return false
		}
		closureReleases := func(f *ssa.Function) bool {
			found := false
			var visit func(g *ssa.Function)
			visit = func(g *ssa.Function) {
				for _, b := range g.Blocks {
					for _, in := range b.Instrs {
						if releaseOn(ssax.Common(in)) {
							found = true
						}
					}
				}
				for _, a := range g.AnonFuncs {
					visit(a)
				}
			}
			visit(f)
			return found
		}
		// event classification of one instruction (closures are summarised at their creation/defer point)
		evAt := map[ssa.Instruction]string{}
		{
			{
				switch x := in.(type) {
				case *ssa.Call:
					if releaseOn(x.Common()) {
						evAt[in] = "release"
						return evAt[in]
					}
					cc := x.Common()
					if mc, ok := cc.Value.(*ssa.MakeClosure); ok {
						// immediately invoked closure that releases
						if containsClosure(closures, mc) && closureReleases(mc.Fn.(*ssa.Function)) {
							evAt[in] = "release"
							return evAt[in]
						}
					}
					n := ssax.CalleeName(cc)
					for i, a := range cc.Args {
						if isAlias(a) && k.Consumes != nil && k.Consumes(n, i) {
							evAt[in] = "consume:" + n
						}
						if isAlias(a) && k.ConsumesCall != nil && !cc.IsInvoke() && k.ConsumesCall(cc, i) {
							evAt[in] = "consume:" + n
						}
					}
				case *ssa.Defer:
					if releaseOn(x.Common()) {
						evAt[in] = "defer-release"
						return evAt[in]
					}
					if mc, ok := x.Call.Value.(*ssa.MakeClosure); ok {
						if closureReleases(mc.Fn.(*ssa.Function)) {
							evAt[in] = "defer-closure"
						}
					}
				case *ssa.Go:
					if mc, ok := x.Call.Value.(*ssa.MakeClosure); ok && closureReleases(mc.Fn.(*ssa.Function)) {
						evAt[in] = "go-closure"
					}
					for _, a := range x.Call.Args {
						if isAlias(a) {
							evAt[in] = "go-arg"
						}
					}
				case *ssa.Return:
					for _, rv := range x.Results {
						if u := ssax.Unspill(rv, x); u != rv {
							if isAlias(u) {
								evAt[in] = "return"
							}
						} else if isAlias(rv) {
							evAt[in] = "return"
						}
					}
				case *ssa.Store:
					if isAlias(x.Val) {
						switch a := x.Addr.(type) {
						case *ssa.FieldAddr:
							evAt[in] = "store"
							s.Owners = append(s.Owners, ssax.FieldQName(a))
						case *ssa.IndexAddr:
							// element store: into a local varargs/literal array (flows to append) or a heap slice
							if _, local := a.X.(*ssa.Alloc); !local {
								evAt[in] = "store-elem"
							} else if appendTargetsField(a.X.(*ssa.Alloc), s) {
								evAt[in] = "append-store"
							} else if appendEscapes(a.X.(*ssa.Alloc)) {
								evAt[in] = "append"
							}
						case *ssa.Global:
							evAt[in] = "store-global"
						}
					}
				case *ssa.Send:
					if isAlias(x.X) {
						evAt[in] = "send"
					}
				case *ssa.MakeClosure:
					if containsClosure(closures, x) && closureReleases(x.Fn.(*ssa.Function)) && !onlyDeferredOrCalled(x) {
						evAt[in] = "closure"
					}
					// bound method value of a release method on the resource (x.decRef taken as a func value):
					// ownership moves to whoever holds the func
					if fnc := x.Fn.(*ssa.Function); len(x.Bindings) == 1 && isAlias(x.Bindings[0]) && fnc.Synthetic != "" {
						if obj, ok := fnc.Object().(*types.Func); ok && obj != nil && k.Release(ssax.Short(obj.FullName())) {
							evAt[in] = "bound-release"
						}
					}
				case *ssa.MapUpdate:
					if isAlias(x.Value) {
						evAt[in] = "store-map"
					}
				case *ssa.If:
					// loop whose body releases ELEMENTS of the owned collection: entering the loop discharges
					// the collection (a live collection is non-empty; the loop is taken to cover it)
					if bo, ok := x.Cond.(*ssa.BinOp); ok && bo.Op == token.LSS && len(x.Block().Succs) == 2 {
						body := x.Block().Succs[0]
						isElem := func(v ssa.Value) bool {
							switch e := v.(type) {
							case *ssa.UnOp:
								if ia, ok := e.X.(*ssa.IndexAddr); ok {
									return isAlias(ia.X)
								}
							case *ssa.Index:
								return isAlias(e.X)
							}
							return false
						}
						isRel := func(bi ssa.Instruction) bool {
							c, ok := bi.(*ssa.Call)
							if !ok || !releaseOn(c.Common()) {
								return false
							}
							if c.Common().IsInvoke() && isElem(c.Common().Value) {
								return true
							}
							for _, a := range c.Common().Args {
								if isElem(a) {
									return true
								}
							}
							return false
						}
						has := false
						for _, bb := range fn.Blocks {
							if bb != body && !body.Dominates(bb) {
								continue
							}
							for _, bi := range bb.Instrs {
								if isRel(bi) {
									has = true
								}
							}
						}
						if has {
							// every iteration must release its element: no path from the body's entry back to
							// the loop header (or out of the function) that skips the release
							header := x.Block()
							again := func(bi ssa.Instruction) bool { return bi == header.Instrs[0] || ssax.IsReturn(bi) }
							first := body.Instrs[0]
							found := false
							if !isRel(first) {
								if again(first) {
									found = true
								} else {
									_, _, found = (ssax.Search{Target: again, Avoid: isRel}).From(fn, first)
								}
							}
							if !found {
								evAt[in] = "release-loop"
							}
						}
					}
				}
			}
		}
		return evAt[in]
	}
	evAt := map[ssa.Instruction]string{}
	for _, b := range fn.Blocks {
		for _, in := range b.Instrs {
			if w := eventOf(in, isAlias); w != "" {
				evAt[in] = w
				s.Events = append(s.Events, Event{in, w})
			}
		}
	}
	// path-sensitive search: phis are aliases only when entered through an edge carrying an alias
	var aliasPhis []*ssa.Phi
	for v := range s.aliases {
		if p, ok := v.(*ssa.Phi); ok && !isRoot[v] {
			aliasPhis = append(aliasPhis, p)
		}
	}
	sort.Slice(aliasPhis, func(i, j int) bool {
		return aliasPhis[i].Pos() < aliasPhis[j].Pos() || aliasPhis[i].Name() < aliasPhis[j].Name()
	})
	type pstate map[*ssa.Phi]bool
	key := func(st pstate) string {
		b := make([]byte, len(aliasPhis))
		for i, p := range aliasPhis {
			if st[p] {
				b[i] = '1'
			} else {
				b[i] = '0'
			}
		}
		return string(b)
	}
	liveIn := func(st pstate) func(ssa.Value) bool {
		memo := map[ssa.Value]int{}
		var live func(v ssa.Value) bool
		live = func(v ssa.Value) bool {
			if !s.aliases[v] {
				return false
			}
			if isRoot[v] {
				return true
			}
			if p, ok := v.(*ssa.Phi); ok {
				return st[p]
			}
			switch memo[v] {
			case 1:
				return true
			case 2, 3:
				return false
			}
			memo[v] = 3
			res := false
			for _, src := range srcs[v] {
				if src == nil {
					continue
				}
				if cells[src] || live(src) {
					res = true
					break
				}
			}
			if res {
				memo[v] = 1
			} else {
				memo[v] = 2
			}
			return res
		}
		return live
	}
	edgeOK := func(from *ssa.BasicBlock, succ int, live func(ssa.Value) bool) bool {
		iff, ok := from.Instrs[len(from.Instrs)-1].(*ssa.If)
		if !ok {
			return true
		}
		if sv, ok := start.(ssa.Value); ok && start != nil && iff.Cond == sv {
			return succ == 0 // try-acquire returning bool: only the true outcome holds the resource
		}
		bo, ok := iff.Cond.(*ssa.BinOp)
		if !ok {
			return true
		}
		// len(collection) tests: a live collection holds at least one element
		if lc, ok := bo.X.(*ssa.Call); ok {
			if b, ok := lc.Call.Value.(*ssa.Builtin); ok && b.Name() == "len" && live(lc.Call.Args[0]) {
				if c, ok := bo.Y.(*ssa.Const); ok && c.Value != nil {
					kv := c.Int64()
					truth, known := false, true
					switch {
					case bo.Op == token.EQL && kv == 0, bo.Op == token.LEQ && kv == 0, bo.Op == token.LSS && kv <= 1:
						truth = false
					case bo.Op == token.NEQ && kv == 0, bo.Op == token.GTR && kv == 0, bo.Op == token.GEQ && kv <= 1:
						truth = true
					default:
						known = false
					}
					if known {
						if truth {
							return succ == 0
						}
						return succ == 1
					}
				}
			}
		}
		if bo.Op != token.EQL && bo.Op != token.NEQ {
			return true
		}
		var v ssa.Value
		if ssax.IsNilConst(bo.Y) {
			v = bo.X
		} else if ssax.IsNilConst(bo.X) {
			v = bo.Y
		} else {
			return true
		}
		nilSucc := 1
		if bo.Op == token.EQL {
			nilSucc = 0
		}
		if live(v) {
			return succ != nilSucc // drop "resource is nil"
		}
		if errVals[v] || errVals[ssax.Unspill(v, nil)] {
			return succ == nilSucc // drop "err != nil" (nothing acquired)
		}
		return true
	}
	type item struct {
		b     *ssa.BasicBlock
		start int
		st    pstate
		path  []int
	}
	if start != nil && evAt[start] != "" {
		return s
	}
	var queue []item
	if start == nil {
		queue = append(queue, item{fn.Blocks[0], 0, pstate{}, []int{0}})
	} else {
		queue = append(queue, item{start.Block(), ssax.Index(start) + 1, pstate{}, []int{start.Block().Index}})
	}
	visited := map[string]bool{}
	for len(queue) > 0 && s.LeakExit == nil {
		it := queue[0]
		queue = queue[1:]
		live := liveIn(it.st)
		dead := false
		for i := it.start; i < len(it.b.Instrs); i++ {
			in := it.b.Instrs[i]
			if eventOf(in, live) != "" || ssax.IsNoReturn(in) {
				dead = true
				break
			}
			if ssax.IsReturn(in) {
				s.LeakExit, s.LeakPath = in, it.path
				dead = true
				break
			}
		}
		if dead {
			continue
		}
		for si, succ := range it.b.Succs {
			if !edgeOK(it.b, si, live) {
				continue
			}
			pi := -1
			cnt := 0
			for j, p := range succ.Preds {
				if p == it.b {
					if cnt == 0 {
						pi = j
					}
					cnt++
				}
			}
			ns := pstate{}
			for p, v := range it.st {
				ns[p] = v
			}
			for _, p := range aliasPhis {
				if p.Block() == succ && pi >= 0 {
					ns[p] = live(p.Edges[pi])
				}
			}
			k := fmt.Sprintf("%d|%s", succ.Index, key(ns))
			if visited[k] {
				continue
			}
			visited[k] = true
			np := append(append([]int(nil), it.path...), succ.Index)
			queue = append(queue, item{succ, 0, ns, np})
		}
	}
	edge := func(from *ssa.BasicBlock, succ int) bool { return edgeOK(from, succ, isAlias) }
	// use after release: a later instruction that still uses the very SSA value that was released
	for in, w := range evAt {
		if w != "release" {
			continue
		}
		cc := ssax.Common(in)
		var rv ssa.Value
		if cc.IsInvoke() {
			rv = cc.Value
		} else {
			for _, a := range cc.Args {
				if isAlias(a) {
					rv = a
					break
				}
			}
		}
		if rv == nil {
			continue
		}
		if _, isPhi := rv.(*ssa.Phi); isPhi {
			continue
		}
		def, _ := rv.(ssa.Instruction)
		uses := func(x ssa.Instruction) bool {
			if x == in {
				return false
			}
			switch x.(type) {
			case *ssa.DebugRef, *ssa.Phi:
				return false
			}
			if bo, ok := x.(*ssa.BinOp); ok && (ssax.IsNilConst(bo.X) || ssax.IsNilConst(bo.Y)) {
				return false
			}
			var ops []*ssa.Value
			for _, op := range x.Operands(ops) {
				if op != nil && *op == rv {
					return true
				}
			}
			return false
		}
		redef := func(x ssa.Instruction) bool { return def != nil && x == def }
		if tgt, _, found := (ssax.Search{Target: uses, Avoid: redef}).From(fn, in); found {
			s.UseAfter = [2]ssa.Instruction{in, tgt}
		}
	}
	// double release: a second plain release reachable after a first one without re-acquiring
	for in, w := range evAt {
		if w != "release" {
			continue
		}
		second := func(x ssa.Instruction) bool {
			return x != in && evAt[x] == "release" || evAt[x] == "defer-release" && false
		}
		reacq := func(x ssa.Instruction) bool { return x == acq }
		if tgt, _, found := (ssax.Search{Target: second, Avoid: reacq, Edge: edge}).From(fn, in); found {
			s.Double = [2]ssa.Instruction{in, tgt}
		}
	}
	return s
}

func containsClosure(cs []*ssa.MakeClosure, c *ssa.MakeClosure) bool {
	for _, x := range cs {
		if x == c {
			return true
		}
	}
	return false
}

// onlyDeferredOrCalled: the closure value is used only as the callee of a defer/call/go.
func onlyDeferredOrCalled(mc *ssa.MakeClosure) bool {
	refs := mc.Referrers()
	if refs == nil {
		return true
	}
	for _, r := range *refs {
		ci, ok := r.(ssa.CallInstruction)
		if !ok || ci.Common().Value != mc {
			return false
		}
	}
	return true
}

// appendTargetsField: the local array cell feeds an append whose result is stored into a struct field.
func appendTargetsField(al *ssa.Alloc, s *Site) bool {
	for _, ref := range *al.Referrers() {
		sl, ok := ref.(*ssa.Slice)
		if !ok {
			continue
		}
		for _, r2 := range *sl.Referrers() {
			c, ok := r2.(*ssa.Call)
			if !ok {
				continue
			}
			if b, ok := c.Call.Value.(*ssa.Builtin); !ok || b.Name() != "append" {
				continue
			}
			for _, r3 := range *c.Referrers() {
				if st, ok := r3.(*ssa.Store); ok {
					if fa, ok := st.Addr.(*ssa.FieldAddr); ok {
						s.Owners = append(s.Owners, ssax.FieldQName(fa))
						return true
					}
				}
			}
		}
	}
	return false
}

// appendEscapes: the local array cell feeds an append whose result is returned, stored or passed on.
func appendEscapes(al *ssa.Alloc) bool {
	for _, ref := range *al.Referrers() {
		sl, ok := ref.(*ssa.Slice)
		if !ok {
			continue
		}
		for _, r2 := range *sl.Referrers() {
			c, ok := r2.(*ssa.Call)
			if !ok {
				continue
			}
			if b, ok := c.Call.Value.(*ssa.Builtin); ok && b.Name() == "append" {
				return true
			}
		}
	}
	return false
}

// ResultIndexOfType returns the index of the first result of the call's signature whose type satisfies
// pred, or -1; single results are reported as -1 with ok.
func ResultIndexOfType(sig *types.Signature, pred func(types.Type) bool) (idx int, single bool) {
	res := sig.Results()
	if res.Len() == 1 {
		return -1, pred(res.At(0).Type())
	}
	for i := 0; i < res.Len(); i++ {
		if pred(res.At(i).Type()) {
			return i, false
		}
	}
	return -2, false
}

// AppendCallOf returns the builtin append call fed by the local varargs array that the given element
// store writes into (nil if none).
func AppendCallOf(in ssa.Instruction) *ssa.Call {
	st, ok := in.(*ssa.Store)
	if !ok {
		return nil
	}
	ia, ok := st.Addr.(*ssa.IndexAddr)
	if !ok {
		return nil
	}
	al, ok := ia.X.(*ssa.Alloc)
	if !ok {
		return nil
	}
	for _, ref := range *al.Referrers() {
		sl, ok := ref.(*ssa.Slice)
		if !ok {
			continue
		}
		for _, r2 := range *sl.Referrers() {
			if c, ok := r2.(*ssa.Call); ok {
				if b, ok := c.Call.Value.(*ssa.Builtin); ok && b.Name() == "append" {
					return c
				}
			}
		}
	}
	return nil
}
