// Package cmpeval is engine E6: finite-domain abstract interpretation of comparison-only code. A comparator
// (or interval predicate) touches its operands only through <, ==, > (and bytes.Compare & co.), so its
// meaning is a finite truth table over the weak orderings of a handful of atoms and the valuations of a
// few boolean flags. The table is computed from the typed syntax tree — no value is ever computed, nothing
// is executed — and compared with the order the property states, written as a small Go closure over the
// same World. Constructs outside the supported fragment make the instance undecided, never guessed.
package cmpeval

import (
	"fmt"
	"go/ast"
	"go/constant"
	"go/token"
	"go/types"
	"sort"
	"strings"
)

// World is one abstract case: a rank for every atom (atoms are only ever compared inside their class)
// and a truth value for every flag.
type World struct {
	rank  map[string]int
	flag  map[string]bool
	class map[string]int
}

type needAtoms struct{ a, b string }
type needFlag struct{ f string }

// Skip is raised by a spec for worlds outside its domain (e.g. degenerate intervals): they are not compared.
type Skip struct{}

// Unsupported is raised for constructs outside the fragment.
type Unsupported struct{ Msg string }

// Cmp returns -1/0/+1 for the order of atoms a and b in this world.
func (w *World) Cmp(a, b string) int {
	ra, oka := w.rank[a]
	rb, okb := w.rank[b]
	if !oka || !okb || w.class[a] != w.class[b] {
		panic(needAtoms{a, b})
	}
	switch {
	case ra < rb:
		return -1
	case ra > rb:
		return 1
	}
	return 0
}

// Flag returns the value of boolean atom f in this world.
func (w *World) Flag(f string) bool {
	v, ok := w.flag[f]
	if !ok {
		panic(needFlag{f})
	}
	return v
}

// Key is one component of a lexicographic order.
type Key struct {
	L, R string
	Desc bool
}

// LexLess: strict lexicographic "left before right" over keys.
func (w *World) LexLess(keys ...Key) bool {
	for _, k := range keys {
		c := w.Cmp(k.L, k.R)
		if k.Desc {
			c = -c
		}
		if c != 0 {
			return c < 0
		}
	}
	return false
}

// Describe renders the world for a report.
func (w *World) Describe() string {
	byClass := map[int][]string{}
	for a, c := range w.class {
		byClass[c] = append(byClass[c], a)
	}
	var cls []int
	for c := range byClass {
		cls = append(cls, c)
	}
	sort.Ints(cls)
	var parts []string
	for _, c := range cls {
		as := byClass[c]
		sort.Slice(as, func(i, j int) bool {
			if w.rank[as[i]] != w.rank[as[j]] {
				return w.rank[as[i]] < w.rank[as[j]]
			}
			return as[i] < as[j]
		})
		s := as[0]
		for i := 1; i < len(as); i++ {
			if w.rank[as[i]] == w.rank[as[i-1]] {
				s += " = " + as[i]
			} else {
				s += " < " + as[i]
			}
		}
		parts = append(parts, s)
	}
	var fs []string
	for f := range w.flag {
		fs = append(fs, f)
	}
	sort.Strings(fs)
	for _, f := range fs {
		parts = append(parts, fmt.Sprintf("%s=%v", f, w.flag[f]))
	}
	return strings.Join(parts, "; ")
}

// universe of atoms (with union-find classes) and flags.
type universe struct {
	atoms  []string
	parent map[string]string
	flags  []string
	consts map[string]int64 // atoms that are integer constants (their mutual order is fixed)
}

func (u *universe) find(a string) string {
	for u.parent[a] != a {
		u.parent[a] = u.parent[u.parent[a]]
		a = u.parent[a]
	}
	return a
}

func (u *universe) addAtom(a string) {
	if _, ok := u.parent[a]; !ok {
		u.parent[a] = a
		u.atoms = append(u.atoms, a)
		if strings.HasPrefix(a, "const:") {
			var k int64
			fmt.Sscanf(a, "const:%d", &k)
			u.consts[a] = k
		}
	}
}

func (u *universe) union(a, b string) {
	u.addAtom(a)
	u.addAtom(b)
	ra, rb := u.find(a), u.find(b)
	if ra != rb {
		u.parent[ra] = rb
	}
}

func (u *universe) addFlag(f string) {
	for _, x := range u.flags {
		if x == f {
			return
		}
	}
	u.flags = append(u.flags, f)
}

// weakOrders enumerates all rank assignments (weak orderings) of n items.
func weakOrders(n int) [][]int {
	if n == 0 {
		return [][]int{{}}
	}
	var out [][]int
	// assign ranks 0..k-1 surjectively for k=1..n
	var rec func(i int, cur []int, used int)
	rec = func(i int, cur []int, used int) {
		if i == n {
			// surjective onto 0..max
			seen := map[int]bool{}
			mx := -1
			for _, r := range cur {
				seen[r] = true
				if r > mx {
					mx = r
				}
			}
			if len(seen) == mx+1 {
				out = append(out, append([]int(nil), cur...))
			}
			return
		}
		for r := 0; r < n; r++ {
			rec(i+1, append(cur, r), used)
		}
	}
	rec(0, nil, 0)
	return out
}

func (u *universe) worlds(limit int) ([]*World, error) {
	sort.Strings(u.atoms)
	sort.Strings(u.flags)
	classes := map[string][]string{}
	var roots []string
	for _, a := range u.atoms {
		r := u.find(a)
		if _, ok := classes[r]; !ok {
			roots = append(roots, r)
		}
		classes[r] = append(classes[r], a)
	}
	sort.Strings(roots)
	type opt struct{ ranks map[string]int }
	perClass := make([][]map[string]int, len(roots))
	total := 1 << len(u.flags)
	for ci, r := range roots {
		as := classes[r]
		if len(as) > 6 {
			return nil, fmt.Errorf("comparison class with %d atoms is too large", len(as))
		}
		for _, wo := range weakOrders(len(as)) {
			m := map[string]int{}
			ok := true
			for i, a := range as {
				m[a] = wo[i]
			}
			// constants keep their numeric order
			for a, ka := range u.consts {
				for b, kb := range u.consts {
					ra, ina := m[a]
					rb, inb := m[b]
					if ina && inb && ((ka < kb) != (ra < rb) || (ka == kb) != (ra == rb)) {
						ok = false
					}
				}
			}
			if ok {
				perClass[ci] = append(perClass[ci], m)
			}
		}
		total *= len(perClass[ci])
		if total > limit {
			return nil, fmt.Errorf("more than %d abstract cases", limit)
		}
	}
	var out []*World
	idx := make([]int, len(roots))
	for {
		for fm := 0; fm < 1<<len(u.flags); fm++ {
			w := &World{rank: map[string]int{}, flag: map[string]bool{}, class: map[string]int{}}
			for ci := range roots {
				for a, r := range perClass[ci][idx[ci]] {
					w.rank[a] = r
					w.class[a] = ci
				}
			}
			for fi, f := range u.flags {
				w.flag[f] = fm&(1<<fi) != 0
			}
			out = append(out, w)
		}
		i := 0
		for ; i < len(roots); i++ {
			idx[i]++
			if idx[i] < len(perClass[i]) {
				break
			}
			idx[i] = 0
		}
		if i == len(roots) {
			break
		}
	}
	return out, nil
}

// Result of deciding one instance.
type Result struct {
	Cases      int
	Atoms      []string
	Flags      []string
	Mismatch   string // non-empty: description of the first world where code and spec disagree
	Undecided  string // non-empty: why the instance could not be decided
	Mismatches int
	Skipped    int
}

// Func is something the evaluator can run in a world: returns the boolean result.
type Func func(w *World) bool

// Decide enumerates worlds over the atoms/flags that code and spec ask for and compares them.
func Decide(code, spec Func) (res Result) {
	u := &universe{parent: map[string]string{}, consts: map[string]int64{}}
	for iter := 0; iter < 64; iter++ {
		ws, err := u.worlds(60000)
		if err != nil {
			res.Undecided = err.Error()
			return
		}
		restart := false
		res.Cases, res.Mismatches, res.Mismatch, res.Skipped = 0, 0, "", 0
		for _, w := range ws {
			var got, want bool
			skipped := false
			need := func(f Func) (v bool, again bool) {
				defer func() {
					if r := recover(); r != nil {
						switch x := r.(type) {
						case needAtoms:
							u.union(x.a, x.b)
							again = true
						case needFlag:
							u.addFlag(x.f)
							again = true
						case Unsupported:
							res.Undecided = x.Msg
						case Skip:
							skipped = true
						default:
							panic(r)
						}
					}
				}()
				return f(w), false
			}
			var again bool
			if got, again = need(code); again {
				restart = true
				break
			}
			if res.Undecided != "" {
				return
			}
			if want, again = need(spec); again {
				restart = true
				break
			}
			if res.Undecided != "" {
				return
			}
			if skipped {
				res.Skipped++
				continue
			}
			res.Cases++
			if got != want {
				res.Mismatches++
				if res.Mismatch == "" {
					res.Mismatch = fmt.Sprintf("in the case [%s] the code yields %v but the stated order requires %v", w.Describe(), got, want)
				}
			}
		}
		if !restart {
			res.Atoms = append([]string(nil), u.atoms...)
			res.Flags = append([]string(nil), u.flags...)
			return
		}
	}
	res.Undecided = "atom discovery did not converge"
	return
}

// ---------------------------------------------------------------------------------------------------
// evaluator over the typed syntax tree

// Resolver finds the declaration of a same-module function or method for inlining.
type Resolver func(fn *types.Func) (*ast.FuncDecl, *types.Info)

// Eval evaluates function declarations.
type Eval struct {
	Info    *types.Info
	Resolve Resolver
	// FlagAlias lets a rule name boolean expressions (normalised text -> flag name)
	MaxDepth int
}

type val struct {
	kind byte // 'b' bool, 'a' atom, 'i' int const, 'c' three-way compare of (a,b), 'n' nil
	b    bool
	a    string
	a2   string
	i    int64
}

type env struct {
	vars map[types.Object]val
	info *types.Info
	w    *World
	ev   *Eval
	d    int
}

type returned struct{ v val }

// FuncOf builds a Func from a declaration: the declaration's parameters are named $r (receiver), $0, $1...
func (e *Eval) FuncOf(decl *ast.FuncDecl, info *types.Info) Func {
	return func(w *World) bool {
		en := &env{vars: map[types.Object]val{}, info: info, w: w, ev: e}
		bindParams(en, decl, info, nil, nil)
		v := en.runBody(decl.Body)
		return en.boolOf(v, nil)
	}
}

// LitOf builds a Func from a function literal (sort.Slice less, sort.Search predicate); free variables are
// atoms named by their source text.
func (e *Eval) LitOf(lit *ast.FuncLit, info *types.Info) Func {
	return func(w *World) bool {
		en := &env{vars: map[types.Object]val{}, info: info, w: w, ev: e}
		i := 0
		for _, f := range lit.Type.Params.List {
			for _, n := range f.Names {
				en.vars[info.Defs[n]] = val{kind: 'a', a: fmt.Sprintf("$%d", i)}
				i++
			}
		}
		v := en.runBody(lit.Body)
		return en.boolOf(v, nil)
	}
}

func bindParams(en *env, decl *ast.FuncDecl, info *types.Info, recv *val, args []val) {
	if decl.Recv != nil && len(decl.Recv.List) == 1 && len(decl.Recv.List[0].Names) == 1 {
		v := val{kind: 'a', a: "$r"}
		if recv != nil {
			v = *recv
		}
		en.vars[info.Defs[decl.Recv.List[0].Names[0]]] = v
	}
	i := 0
	for _, f := range decl.Type.Params.List {
		for _, n := range f.Names {
			v := val{kind: 'a', a: fmt.Sprintf("$%d", i)}
			if args != nil && i < len(args) {
				v = args[i]
			}
			if n.Name != "_" {
				en.vars[info.Defs[n]] = v
			}
			i++
		}
	}
}

func (en *env) runBody(b *ast.BlockStmt) (out val) {
	defer func() {
		if r := recover(); r != nil {
			if rv, ok := r.(returned); ok {
				out = rv.v
				return
			}
			panic(r)
		}
	}()
	en.block(b.List)
	panic(Unsupported{"function falls off its end without returning"})
}

func (en *env) block(list []ast.Stmt) {
	for _, s := range list {
		en.stmt(s)
	}
}

func (en *env) stmt(s ast.Stmt) {
	switch x := s.(type) {
	case *ast.ReturnStmt:
		if len(x.Results) != 1 {
			panic(Unsupported{"return with != 1 results"})
		}
		panic(returned{en.expr(x.Results[0])})
	case *ast.IfStmt:
		if x.Init != nil {
			en.stmt(x.Init)
		}
		c := en.boolOf(en.expr(x.Cond), x.Cond)
		if c {
			en.block(x.Body.List)
		} else if x.Else != nil {
			switch e := x.Else.(type) {
			case *ast.BlockStmt:
				en.block(e.List)
			default:
				en.stmt(e)
			}
		}
	case *ast.BlockStmt:
		en.block(x.List)
	case *ast.AssignStmt:
		if len(x.Lhs) != len(x.Rhs) {
			panic(Unsupported{"multi-value assignment"})
		}
		vals := make([]val, len(x.Rhs))
		for i := range x.Rhs {
			vals[i] = en.expr(x.Rhs[i])
		}
		for i, l := range x.Lhs {
			id, ok := l.(*ast.Ident)
			if !ok {
				panic(Unsupported{"assignment to non-local " + types.ExprString(l)})
			}
			if id.Name == "_" {
				continue
			}
			obj := en.info.Defs[id]
			if obj == nil {
				obj = en.info.Uses[id]
			}
			en.vars[obj] = vals[i]
		}
	case *ast.DeclStmt:
		// var x T — zero value unknown: leave unbound (use makes it an atom)
	case *ast.SwitchStmt:
		if x.Init != nil {
			en.stmt(x.Init)
		}
		var tag *val
		if x.Tag != nil {
			t := en.expr(x.Tag)
			tag = &t
		}
		var def *ast.CaseClause
		for _, cs := range x.Body.List {
			cc := cs.(*ast.CaseClause)
			if cc.List == nil {
				def = cc
				continue
			}
			for _, ce := range cc.List {
				var hit bool
				if tag == nil {
					hit = en.boolOf(en.expr(ce), ce)
				} else {
					hit = en.boolOf(en.compare(token.EQL, *tag, en.expr(ce)), ce)
				}
				if hit {
					en.block(cc.Body)
					return
				}
			}
		}
		if def != nil {
			en.block(def.Body)
		}
	case *ast.ExprStmt:
		panic(Unsupported{"expression statement (possible side effect): " + types.ExprString(x.X)})
	default:
		panic(Unsupported{fmt.Sprintf("statement %T", s)})
	}
}

func (en *env) boolOf(v val, at ast.Expr) bool {
	switch v.kind {
	case 'b':
		return v.b
	case 'a':
		return en.w.Flag(v.a)
	case 'c':
		if at == nil { // a three-way comparator's result, read as "orders before"
			return en.w.Cmp(v.a, v.a2) < 0
		}
	case 'i':
		if at == nil {
			return v.i < 0
		}
	}
	if at == nil {
		panic(Unsupported{"value does not reduce to a boolean"})
	}
	panic(Unsupported{"condition is not boolean: " + types.ExprString(at)})
}

func (en *env) atomText(v val, at ast.Expr) string {
	switch v.kind {
	case 'a':
		return v.a
	case 'i':
		return fmt.Sprintf("const:%d", v.i)
	case 'n':
		return "nil"
	}
	panic(Unsupported{"operand is not an atom: " + types.ExprString(at)})
}

func (en *env) compare(op token.Token, l, r val) val {
	// three-way compare result against an integer constant
	if l.kind == 'c' && r.kind == 'i' {
		c := en.w.Cmp(l.a, l.a2)
		return val{kind: 'b', b: intCmp(op, int64(c), r.i)}
	}
	if r.kind == 'c' && l.kind == 'i' {
		c := en.w.Cmp(r.a, r.a2)
		return val{kind: 'b', b: intCmp(op, l.i, int64(c))}
	}
	if l.kind == 'i' && r.kind == 'i' {
		return val{kind: 'b', b: intCmp(op, l.i, r.i)}
	}
	if l.kind == 'b' || r.kind == 'b' {
		lb, rb := en.boolOf(l, nil), en.boolOf(r, nil)
		switch op {
		case token.EQL:
			return val{kind: 'b', b: lb == rb}
		case token.NEQ:
			return val{kind: 'b', b: lb != rb}
		}
	}
	a, b := en.atomText(l, nil), en.atomText(r, nil)
	c := en.w.Cmp(a, b)
	return val{kind: 'b', b: intCmp(op, int64(c), 0)}
}

func intCmp(op token.Token, a, b int64) bool {
	switch op {
	case token.LSS:
		return a < b
	case token.LEQ:
		return a <= b
	case token.GTR:
		return a > b
	case token.GEQ:
		return a >= b
	case token.EQL:
		return a == b
	case token.NEQ:
		return a != b
	}
	panic(Unsupported{"operator " + op.String()})
}

func (en *env) expr(x ast.Expr) val {
	if tv, ok := en.info.Types[x]; ok && tv.Value != nil {
		switch tv.Value.Kind() {
		case constant.Bool:
			return val{kind: 'b', b: constant.BoolVal(tv.Value)}
		case constant.Int:
			if k, ok := constant.Int64Val(tv.Value); ok {
				return val{kind: 'i', i: k}
			}
		}
	}
	switch e := x.(type) {
	case *ast.ParenExpr:
		return en.expr(e.X)
	case *ast.Ident:
		if e.Name == "nil" {
			return val{kind: 'n'}
		}
		obj := en.info.Uses[e]
		if obj == nil {
			obj = en.info.Defs[e]
		}
		if v, ok := en.vars[obj]; ok {
			return v
		}
		return val{kind: 'a', a: e.Name}
	case *ast.UnaryExpr:
		switch e.Op {
		case token.NOT:
			return val{kind: 'b', b: !en.boolOf(en.expr(e.X), e.X)}
		case token.AND:
			v := en.expr(e.X)
			if v.kind == 'a' {
				return val{kind: 'a', a: "&" + v.a}
			}
		case token.SUB:
			v := en.expr(e.X)
			if v.kind == 'i' {
				return val{kind: 'i', i: -v.i}
			}
			if v.kind == 'c' {
				return val{kind: 'c', a: v.a2, a2: v.a}
			}
		}
		panic(Unsupported{"unary " + e.Op.String()})
	case *ast.StarExpr:
		v := en.expr(e.X)
		if v.kind == 'a' {
			if strings.HasPrefix(v.a, "&") {
				return val{kind: 'a', a: v.a[1:]}
			}
			return val{kind: 'a', a: "*" + v.a}
		}
	case *ast.SelectorExpr:
		// package-qualified or field
		if id, ok := e.X.(*ast.Ident); ok {
			if _, isPkg := en.info.Uses[id].(*types.PkgName); isPkg {
				return val{kind: 'a', a: id.Name + "." + e.Sel.Name}
			}
		}
		v := en.expr(e.X)
		if v.kind == 'a' {
			base := v.a
			if strings.HasPrefix(base, "&") {
				base = base[1:] // (&x).f is x.f
			} else if strings.HasPrefix(base, "*") {
				base = "(" + base + ")"
			}
			return val{kind: 'a', a: base + "." + e.Sel.Name}
		}
	case *ast.IndexExpr:
		v, i := en.expr(e.X), en.expr(e.Index)
		if v.kind == 'a' {
			base := v.a
			if strings.HasPrefix(base, "*") {
				base = "(" + base + ")"
			}
			return val{kind: 'a', a: base + "[" + en.atomText(i, e.Index) + "]"}
		}
	case *ast.BinaryExpr:
		switch e.Op {
		case token.LAND:
			if !en.boolOf(en.expr(e.X), e.X) {
				return val{kind: 'b', b: false}
			}
			return val{kind: 'b', b: en.boolOf(en.expr(e.Y), e.Y)}
		case token.LOR:
			if en.boolOf(en.expr(e.X), e.X) {
				return val{kind: 'b', b: true}
			}
			return val{kind: 'b', b: en.boolOf(en.expr(e.Y), e.Y)}
		case token.LSS, token.LEQ, token.GTR, token.GEQ, token.EQL, token.NEQ:
			return en.compare(e.Op, en.expr(e.X), en.expr(e.Y))
		case token.ADD, token.SUB:
			l, r := en.expr(e.X), en.expr(e.Y)
			if l.kind == 'i' && r.kind == 'i' {
				if e.Op == token.ADD {
					return val{kind: 'i', i: l.i + r.i}
				}
				return val{kind: 'i', i: l.i - r.i}
			}
			if l.kind == 'a' && r.kind == 'a' && e.Op == token.SUB {
				return val{kind: 'c', a: l.a, a2: r.a} // sign of a difference = three-way comparison
			}
			if l.kind == 'a' {
				return val{kind: 'a', a: "(" + l.a + e.Op.String() + en.atomText(r, e.Y) + ")"}
			}
		}
		panic(Unsupported{"binary " + e.Op.String() + " in " + types.ExprString(x)})
	case *ast.CallExpr:
		return en.call(e)
	case *ast.TypeAssertExpr:
		return en.expr(e.X)
	}
	panic(Unsupported{"expression " + types.ExprString(x)})
}

func (en *env) call(e *ast.CallExpr) val {
	// conversions
	if tv, ok := en.info.Types[e.Fun]; ok && tv.IsType() && len(e.Args) == 1 {
		return en.expr(e.Args[0])
	}
	var fn *types.Func
	var recvExpr ast.Expr
	switch f := e.Fun.(type) {
	case *ast.Ident:
		if b, ok := en.info.Uses[f].(*types.Builtin); ok {
			if b.Name() == "len" {
				v := en.expr(e.Args[0])
				if v.kind == 'a' {
					return val{kind: 'a', a: "len(" + v.a + ")"}
				}
			}
			panic(Unsupported{"builtin " + b.Name()})
		}
		fn, _ = en.info.Uses[f].(*types.Func)
	case *ast.SelectorExpr:
		fn, _ = en.info.Uses[f.Sel].(*types.Func)
		if sel, ok := en.info.Selections[f]; ok && sel.Kind() == types.MethodVal {
			recvExpr = f.X
		}
	}
	if fn == nil {
		panic(Unsupported{"dynamic call " + types.ExprString(e.Fun)})
	}
	full := fn.FullName()
	switch full {
	case "bytes.Compare", "strings.Compare", "cmp.Compare":
		return val{kind: 'c', a: en.atomText(en.expr(e.Args[0]), e.Args[0]), a2: en.atomText(en.expr(e.Args[1]), e.Args[1])}
	case "bytes.Equal":
		return en.compare(token.EQL, en.expr(e.Args[0]), en.expr(e.Args[1]))
	case "(time.Time).Before":
		return en.compare(token.LSS, en.expr(recvExpr), en.expr(e.Args[0]))
	case "(time.Time).After":
		return en.compare(token.GTR, en.expr(recvExpr), en.expr(e.Args[0]))
	case "(time.Time).Equal":
		return en.compare(token.EQL, en.expr(recvExpr), en.expr(e.Args[0]))
	case "(time.Time).Compare":
		return val{kind: 'c', a: en.atomText(en.expr(recvExpr), recvExpr), a2: en.atomText(en.expr(e.Args[0]), e.Args[0])}
	case "(time.Time).UnixNano", "(time.Time).Unix", "(time.Time).UnixMilli":
		return en.expr(recvExpr) // monotone view of the same instant
	}
	// inline same-module callee
	if en.ev.Resolve != nil && en.d < en.ev.maxDepth() {
		if decl, info := en.ev.Resolve(fn); decl != nil && decl.Body != nil {
			sub := &env{vars: map[types.Object]val{}, info: info, w: en.w, ev: en.ev, d: en.d + 1}
			var recv *val
			if recvExpr != nil {
				v := en.expr(recvExpr)
				recv = &v
			}
			args := make([]val, len(e.Args))
			for i, a := range e.Args {
				args[i] = en.expr(a)
			}
			bindParams(sub, decl, info, recv, args)
			if v, ok := sub.tryBody(decl.Body); ok {
				return v
			}
		}
	}
	// opaque pure call: an atom (or flag) named by its text
	var parts []string
	if recvExpr != nil {
		parts = append(parts, en.atomText(en.expr(recvExpr), recvExpr))
	}
	for _, a := range e.Args {
		parts = append(parts, en.atomText(en.expr(a), a))
	}
	name := fn.Name()
	if recvExpr != nil && len(parts) > 0 {
		return val{kind: 'a', a: parts[0] + "." + name + "(" + strings.Join(parts[1:], ",") + ")"}
	}
	return val{kind: 'a', a: name + "(" + strings.Join(parts, ",") + ")"}
}

// tryBody runs an inlined body; an unsupported construct inside it makes the call opaque instead.
func (en *env) tryBody(b *ast.BlockStmt) (v val, ok bool) {
	defer func() {
		if r := recover(); r != nil {
			if _, uns := r.(Unsupported); uns {
				ok = false
				return
			}
			panic(r)
		}
	}()
	return en.runBody(b), true
}

func (e *Eval) maxDepth() int {
	if e.MaxDepth > 0 {
		return e.MaxDepth
	}
	return 4
}
