// Package lockset: intra-procedural must-lockset analysis on SSA (part of engine E4). A lock is keyed by
// the access path of the mutex it is called on ("recv.RWMutex", "recv.mu", "free:tst.RWMutex"), so "same
// receiver" is part of the key. Deferred unlocks keep the lock held to the exit.
package lockset

import (
	"golang.org/x/tools/go/ssa"

	"bvcheck/internal/ssax"
)

// Mode of a held lock.
const (
	R = 1
	W = 2
)

// State maps lock key to mode.
type State map[string]int

func (s State) clone() State {
	n := State{}
	for k, v := range s {
		n[k] = v
	}
	return n
}

func meet(a, b State) State {
	out := State{}
	for k, v := range a {
		if w, ok := b[k]; ok {
			if w < v {
				v = w
			}
			out[k] = v
		}
	}
	return out
}

func equal(a, b State) bool {
	if len(a) != len(b) {
		return false
	}
	for k, v := range a {
		if b[k] != v {
			return false
		}
	}
	return true
}

// Op classifies a call as a lock operation: returns key, mode, +1 acquire / -1 release / 0 none.
func Op(in ssa.Instruction) (string, int, int) {
	c, ok := in.(*ssa.Call)
	if !ok {
		return "", 0, 0
	}
	cc := c.Common()
	if cc.IsInvoke() || len(cc.Args) == 0 {
		return "", 0, 0
	}
	switch ssax.CalleeName(cc) {
	case "(*sync.RWMutex).Lock", "(*sync.Mutex).Lock":
		return ssax.Path(cc.Args[0]), W, +1
	case "(*sync.RWMutex).RLock":
		return ssax.Path(cc.Args[0]), R, +1
	case "(*sync.RWMutex).Unlock", "(*sync.Mutex).Unlock":
		return ssax.Path(cc.Args[0]), W, -1
	case "(*sync.RWMutex).RUnlock":
		return ssax.Path(cc.Args[0]), R, -1
	}
	return "", 0, 0
}

// Result gives the lock state before each instruction.
type Result struct {
	in map[*ssa.BasicBlock]State
}

// Compute runs the analysis; entry is the state assumed at function entry.
func Compute(fn *ssa.Function, entry State) *Result {
	r := &Result{in: map[*ssa.BasicBlock]State{}}
	if len(fn.Blocks) == 0 {
		return r
	}
	if entry == nil {
		entry = State{}
	}
	r.in[fn.Blocks[0]] = entry.clone()
	work := []*ssa.BasicBlock{fn.Blocks[0]}
	for len(work) > 0 {
		b := work[0]
		work = work[1:]
		st := r.in[b].clone()
		for _, in := range b.Instrs {
			apply(st, in)
		}
		for _, s := range b.Succs {
			old, seen := r.in[s]
			var nw State
			if !seen {
				nw = st.clone()
			} else {
				nw = meet(old, st)
			}
			if !seen || !equal(old, nw) {
				r.in[s] = nw
				work = append(work, s)
			}
		}
	}
	return r
}

func apply(st State, in ssa.Instruction) {
	key, mode, d := Op(in)
	switch d {
	case +1:
		st[key] = mode
	case -1:
		delete(st, key)
	}
}

// At returns the locks held just before instruction in (nil if the block is unreachable).
func (r *Result) At(in ssa.Instruction) State {
	b := in.Block()
	base, ok := r.in[b]
	if !ok {
		return nil
	}
	st := base.clone()
	for _, x := range b.Instrs {
		if x == in {
			break
		}
		apply(st, x)
	}
	return st
}
