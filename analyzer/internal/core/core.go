// Package core holds the obligation / verdict / evidence plumbing shared by every rule.
package core

import (
	"encoding/json"
	"fmt"
	"os"
	"path/filepath"
	"sort"
	"strings"
	"sync"

	"bvcheck/internal/load"
)

// Status of one obligation.
type Status string

// Obligation outcomes.
const (
	Holds     Status = "holds"
	Violated  Status = "violated"
	Undecided Status = "undecided"
	Known     Status = "known-finding"
)

// Obligation is one rule instance: rule id + construct (never a line number).
type Obligation struct {
	Rule      string `json:"rule"`
	Construct string `json:"construct"`
	Status    Status `json:"status"`
	Pos       string `json:"pos,omitempty"`
	Detail    string `json:"detail,omitempty"`
}

// Key identifies an obligation across runs.
func (o Obligation) Key() string { return o.Rule + " " + o.Construct }

// Property is one of C01..C20 with the rules that decide its structural clauses.
type Property struct {
	ID         string
	Title      string
	Decides    string // clauses decided
	NotDecided string // clauses explicitly not decided
	Technique  string
	Run        func(c *Ctx)
}

// Ctx is handed to a property's Run.
type Ctx struct {
	P    *load.Program
	Tier string
	Prop string

	mu     sync.Mutex
	Obs    []Obligation
	Floors map[string]int // rule -> minimum number of obligations (anti-vacuity)
	Stats  map[string]int // what was analysed
	Notes  []string
}

func (c *Ctx) add(o Obligation) {
	c.mu.Lock()
	defer c.mu.Unlock()
	c.Obs = append(c.Obs, o)
}

// Hold records a discharged obligation.
func (c *Ctx) Hold(rule, construct, pos, detail string) {
	c.add(Obligation{rule, construct, Holds, pos, detail})
}

// Violate records a violated obligation.
func (c *Ctx) Violate(rule, construct, pos, detail string) {
	c.add(Obligation{rule, construct, Violated, pos, detail})
}

// Undecide records an obligation that could not be decided (fails closed).
func (c *Ctx) Undecide(rule, construct, pos, detail string) {
	c.add(Obligation{rule, construct, Undecided, pos, detail})
}

// Check records holds/violated depending on ok.
func (c *Ctx) Check(ok bool, rule, construct, pos, detail string) bool {
	if ok {
		c.Hold(rule, construct, pos, detail)
	} else {
		c.Violate(rule, construct, pos, detail)
	}
	return ok
}

// Floor declares the anti-vacuity minimum for a rule.
func (c *Ctx) Floor(rule string, n int) {
	c.mu.Lock()
	defer c.mu.Unlock()
	if c.Floors == nil {
		c.Floors = map[string]int{}
	}
	c.Floors[rule] = n
}

// Stat adds to an "analysed" counter.
func (c *Ctx) Stat(name string, n int) {
	c.mu.Lock()
	defer c.mu.Unlock()
	if c.Stats == nil {
		c.Stats = map[string]int{}
	}
	c.Stats[name] += n
}

// Note adds a free-text note to the evidence.
func (c *Ctx) Note(format string, a ...any) {
	c.mu.Lock()
	defer c.mu.Unlock()
	c.Notes = append(c.Notes, fmt.Sprintf(format, a...))
}

// KnownFinding is one committed known-findings entry.
type KnownFinding struct {
	Fixed     bool
	Property  string
	Rule      string
	Construct string
	Text      string
}

// LoadKnown parses KNOWN_FINDINGS.txt: lines
//
//	known: property=C14 rule=<rule> construct=<construct> :: <what fails>
//	fixed: property=C14 <commit> <what failed>
func LoadKnown(path string) ([]KnownFinding, error) {
	b, err := os.ReadFile(path)
	if err != nil {
		if os.IsNotExist(err) {
			return nil, nil
		}
		return nil, err
	}
	var out []KnownFinding
	for _, ln := range strings.Split(string(b), "\n") {
		ln = strings.TrimSpace(ln)
		if ln == "" || strings.HasPrefix(ln, "#") {
			continue
		}
		switch {
		case strings.HasPrefix(ln, "fixed:"):
			k := KnownFinding{Fixed: true, Text: ln}
			for _, f := range strings.Fields(ln) {
				if strings.HasPrefix(f, "property=") {
					k.Property = strings.TrimPrefix(f, "property=")
				}
			}
			out = append(out, k)
		case strings.HasPrefix(ln, "known:"):
			k := KnownFinding{}
			head, text, _ := strings.Cut(strings.TrimPrefix(ln, "known:"), "::")
			k.Text = strings.TrimSpace(text)
			head = strings.TrimSpace(head)
			// the construct is everything after "construct=" (it contains spaces); property and rule are single fields before it
			if i := strings.Index(head, "construct="); i >= 0 {
				k.Construct = strings.TrimSpace(head[i+len("construct="):])
				head = head[:i]
			}
			for _, f := range strings.Fields(head) {
				switch {
				case strings.HasPrefix(f, "property="):
					k.Property = strings.TrimPrefix(f, "property=")
				case strings.HasPrefix(f, "rule="):
					k.Rule = strings.TrimPrefix(f, "rule=")
				}
			}
			if k.Property == "" || k.Rule == "" || k.Construct == "" {
				return nil, fmt.Errorf("malformed known-findings line: %q", ln)
			}
			out = append(out, k)
		default:
			return nil, fmt.Errorf("malformed known-findings line: %q", ln)
		}
	}
	return out, nil
}

// Result is the verdict for one property (what is cached and turned into evidence).
type Result struct {
	Property    string             `json:"property"`
	Tier        string             `json:"tier"`
	Obligations []Obligation       `json:"obligations"`
	Floors      map[string]int     `json:"floors"`
	Stats       map[string]int     `json:"stats"`
	Notes       []string           `json:"notes"`
	Timings     map[string]float64 `json:"timings"`
	WallS       float64            `json:"wall_s"`
	Panic       string             `json:"panic,omitempty"`
}

// Finalize sorts obligations, de-duplicates keys and applies floors (adding violated pseudo-obligations).
func Finalize(c *Ctx) Result {
	r := Result{Property: c.Prop, Tier: c.Tier, Floors: c.Floors, Stats: c.Stats, Notes: c.Notes}
	obs := append([]Obligation(nil), c.Obs...)
	sort.SliceStable(obs, func(i, j int) bool {
		if obs[i].Rule != obs[j].Rule {
			return obs[i].Rule < obs[j].Rule
		}
		if obs[i].Construct != obs[j].Construct {
			return obs[i].Construct < obs[j].Construct
		}
		return obs[i].Pos < obs[j].Pos
	})
	count := map[string]int{}
	for _, o := range obs {
		count[o.Rule]++
	}
	var rules []string
	for rule := range c.Floors {
		rules = append(rules, rule)
	}
	sort.Strings(rules)
	for _, rule := range rules {
		if n := c.Floors[rule]; count[rule] < n {
			obs = append(obs, Obligation{Rule: rule, Construct: "<anti-vacuity>", Status: Undecided,
				Detail: fmt.Sprintf("rule matched %d instances, fewer than the %d confirmed by hand: anchors moved or rule slots no longer resolve", count[rule], n)})
		}
	}
	r.Obligations = obs
	return r
}

// Emit writes the evidence file and prints verdict lines. Returns the process exit code.
func Emit(r Result, prop *Property, known []KnownFinding, evidenceDir string, seed int64, cmdline string) int {
	type ruleStat struct {
		Obligations int `json:"obligations"`
		Holds       int `json:"holds"`
		Violated    int `json:"violated"`
		Undecided   int `json:"undecided"`
		Known       int `json:"known_findings"`
		Floor       int `json:"floor"`
	}
	rules := map[string]*ruleStat{}
	viol := 0
	var bad []Obligation
	obs := append([]Obligation(nil), r.Obligations...)
	for i := range obs {
		o := &obs[i]
		rs := rules[o.Rule]
		if rs == nil {
			rs = &ruleStat{Floor: r.Floors[o.Rule]}
			rules[o.Rule] = rs
		}
		rs.Obligations++
		if o.Status == Violated {
			for _, k := range known {
				if !k.Fixed && k.Property == r.Property && k.Rule == o.Rule && k.Construct == o.Construct {
					o.Status = Known
					fmt.Printf("KNOWN-FINDING: property=%s %s %s at %s: %s\n", r.Property, o.Rule, o.Construct, o.Pos, k.Text)
				}
			}
		}
		switch o.Status {
		case Holds:
			rs.Holds++
		case Violated:
			rs.Violated++
			viol++
			bad = append(bad, *o)
		case Undecided:
			rs.Undecided++
			viol++
			bad = append(bad, *o)
		case Known:
			rs.Known++
		}
	}
	if r.Panic != "" {
		viol++
		bad = append(bad, Obligation{Rule: "checker.panic", Construct: r.Property, Status: Undecided, Detail: r.Panic})
	}
	discharged := 0
	var samples []any
	perRuleSample := map[string]int{}
	for _, o := range obs {
		if o.Status == Holds {
			discharged++
		}
		if (o.Status != Holds || perRuleSample[o.Rule] < 2) && len(samples) < 60 {
			perRuleSample[o.Rule]++
			samples = append(samples, o)
		}
	}
	os.MkdirAll(filepath.Join(evidenceDir, "violations"), 0o755)
	exit := 0
	for i, o := range bad {
		path := filepath.Join(evidenceDir, "violations", fmt.Sprintf("%s-%d.json", r.Property, i))
		b, _ := json.MarshalIndent(map[string]any{"property": r.Property, "tier": r.Tier, "obligation": o}, "", " ")
		os.WriteFile(path, b, 0o644)
		fmt.Printf("%s: %s [%s] %s — %s\n", o.Pos, strings.ToUpper(string(o.Status)), o.Rule, o.Construct, o.Detail)
		fmt.Printf("VIOLATION property=%s replay=%s\n", r.Property, path)
		exit = 1
	}
	ev := map[string]any{
		"property_id": r.Property,
		"tier":        r.Tier,
		"seed":        seed,
		"level":       "other",
		"coverage": map[string]any{
			"explanation":  "Static analysis of /repo's current source (no execution). DECIDES: " + prop.Decides + " DOES NOT DECIDE: " + prop.NotDecided,
			"obligations":  len(obs),
			"discharged":   discharged,
			"rules":        rules,
			"analysed":     r.Stats,
			"samples":      samples,
			"notes":        r.Notes,
			"checker_cmd":  cmdline,
			"trusted_base": []string{"go/types and golang.org/x/tools v0.50.0 (go/packages, go/ssa, callgraph/vta)", "pbgen (proto3 front end) + protoc-gen-go v1.36.12 regenerating api/proto Go code into an overlay; grpc/validate/gateway stubs are opaque", "the per-rule idiom and exception tables in /verif/analyzer/internal/rules"},
			"exhaustive":   true,
			"timings":      r.Timings,
		},
		"assumptions": []string{
			"every obligation is a structural necessary condition of the property, decided for all paths of the analysed functions; the behavioural property as a whole is not proved",
			"generated protobuf/grpc code is treated as opaque; test files are not analysed",
		},
		"wall_s":     r.WallS,
		"violations": viol,
	}
	os.MkdirAll(evidenceDir, 0o755)
	b, _ := json.MarshalIndent(ev, "", " ")
	if err := os.WriteFile(filepath.Join(evidenceDir, r.Property+".json"), b, 0o644); err != nil {
		fmt.Println("cannot write evidence:", err)
		return 2
	}
	fmt.Printf("property=%s tier=%s obligations=%d discharged=%d violations=%d wall_s=%.1f\n", r.Property, r.Tier, len(obs), discharged, viol, r.WallS)
	return exit
}
