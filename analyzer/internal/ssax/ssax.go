// Package ssax: helpers over go/ssa used by the order / pair / confine engines — resolved callee names,
// instruction-level dominance, "reach avoiding" path search, no-return recognition, access paths.
package ssax

import (
	"fmt"
	"go/constant"
	"go/token"
	"go/types"
	"sort"
	"strings"

	"golang.org/x/tools/go/ssa"
)

// Module prefix stripped from names.
const Module = "github.com/apache/skywalking-banyandb/"

// Short strips the module prefix from a qualified name.
func Short(s string) string { return strings.ReplaceAll(s, Module, "") }

// Common returns the CallCommon of a Call/Defer/Go instruction (nil otherwise).
func Common(in ssa.Instruction) *ssa.CallCommon {
	if c, ok := in.(ssa.CallInstruction); ok {
		return c.Common()
	}
	return nil
}

// CalleeName is the resolved callee of a call: the static callee's full name (module prefix stripped),
// "iface:<(pkg.I).M>" for an interface invoke, "builtin:<name>", or "" for a dynamic call.
func CalleeName(cc *ssa.CallCommon) string {
	if cc == nil {
		return ""
	}
	if cc.IsInvoke() {
		return "iface:" + Short(cc.Method.FullName())
	}
	if b, ok := cc.Value.(*ssa.Builtin); ok {
		return "builtin:" + b.Name()
	}
	if f := cc.StaticCallee(); f != nil {
		return FuncName(f)
	}
	return ""
}

// FuncName is the stable name of a function: types.Func full name for declared functions, parent$N for
// anonymous ones; generic instantiations are named by their origin.
func FuncName(f *ssa.Function) string {
	if f == nil {
		return ""
	}
	if o := f.Origin(); o != nil {
		f = o
	}
	if obj, ok := f.Object().(*types.Func); ok && obj != nil {
		return Short(obj.FullName())
	}
	if f.Parent() != nil {
		return FuncName(f.Parent()) + "$" + strings.TrimPrefix(f.Name(), f.Parent().Name()+"$")
	}
	return Short(f.String())
}

// Matcher selects instructions.
type Matcher func(ssa.Instruction) bool

// CallTo matches Call (and optionally Defer/Go when includeDefer) instructions whose resolved callee name
// is one of names. A name ending in "*" matches by prefix.
func CallTo(names ...string) Matcher {
	return func(in ssa.Instruction) bool {
		if _, ok := in.(*ssa.Call); !ok {
			return false
		}
		return nameIn(CalleeName(Common(in)), names)
	}
}

// AnyCallTo is CallTo but also matches Defer and Go instructions.
func AnyCallTo(names ...string) Matcher {
	return func(in ssa.Instruction) bool {
		cc := Common(in)
		if cc == nil {
			return false
		}
		return nameIn(CalleeName(cc), names)
	}
}

func nameIn(n string, names []string) bool {
	if n == "" {
		return false
	}
	for _, m := range names {
		if m == n || (strings.HasSuffix(m, "*") && strings.HasPrefix(n, strings.TrimSuffix(m, "*"))) {
			return true
		}
	}
	return false
}

// Or combines matchers.
func Or(ms ...Matcher) Matcher {
	return func(in ssa.Instruction) bool {
		for _, m := range ms {
			if m(in) {
				return true
			}
		}
		return false
	}
}

// Find returns the instructions of fn (not of its closures) matching m, in block order.
func Find(fn *ssa.Function, m Matcher) []ssa.Instruction {
	var out []ssa.Instruction
	if fn == nil {
		return nil
	}
	for _, b := range fn.Blocks {
		for _, in := range b.Instrs {
			if m(in) {
				out = append(out, in)
			}
		}
	}
	return out
}

// FindDeep is Find over fn and all of its (transitively) nested anonymous functions.
func FindDeep(fn *ssa.Function, m Matcher) []ssa.Instruction {
	out := Find(fn, m)
	if fn != nil {
		for _, a := range fn.AnonFuncs {
			out = append(out, FindDeep(a, m)...)
		}
	}
	return out
}

// Index of an instruction inside its block.
func Index(in ssa.Instruction) int {
	for i, x := range in.Block().Instrs {
		if x == in {
			return i
		}
	}
	return -1
}

// Dominates reports whether a executes before b on every path reaching b (same function).
func Dominates(a, b ssa.Instruction) bool {
	if a.Parent() != b.Parent() {
		return false
	}
	if a.Block() == b.Block() {
		return Index(a) < Index(b)
	}
	return a.Block().Dominates(b.Block())
}

// DominatedByAny reports whether some instruction in as dominates b.
func DominatedByAny(as []ssa.Instruction, b ssa.Instruction) bool {
	for _, a := range as {
		if Dominates(a, b) {
			return true
		}
	}
	return false
}

// IsNoReturn recognises instructions after which control does not continue: panic, os.Exit, log.Fatal*,
// the repository's logger.Panicf, and zerolog event terminals (Msg/Msgf/Send) on an event that started
// with Logger.Panic()/Fatal().
func IsNoReturn(in ssa.Instruction) bool {
	if _, ok := in.(*ssa.Panic); ok {
		return true
	}
	c, ok := in.(*ssa.Call)
	if !ok {
		return false
	}
	switch n := CalleeName(c.Common()); n {
	case "os.Exit", "log.Fatal", "log.Fatalf", "log.Fatalln", "log.Panic", "log.Panicf", "pkg/logger.Panicf", "runtime.Goexit":
		return true
	case "(*github.com/rs/zerolog.Event).Msg", "(*github.com/rs/zerolog.Event).Msgf", "(*github.com/rs/zerolog.Event).Send":
		return eventIsFatal(c.Common().Args[0], 0)
	}
	return false
}

func eventIsFatal(v ssa.Value, depth int) bool {
	if depth > 40 {
		return false
	}
	switch v := v.(type) {
	case *ssa.Call:
		n := CalleeName(v.Common())
		switch n {
		case "(*github.com/rs/zerolog.Logger).Panic", "(*github.com/rs/zerolog.Logger).Fatal", "(github.com/rs/zerolog.Logger).Panic", "(github.com/rs/zerolog.Logger).Fatal":
			return true
		}
		if strings.HasPrefix(n, "(*github.com/rs/zerolog.Event).") && len(v.Common().Args) > 0 {
			return eventIsFatal(v.Common().Args[0], depth+1)
		}
	case *ssa.Phi:
		for _, e := range v.Edges {
			if !eventIsFatal(e, depth+1) {
				return false
			}
		}
		return len(v.Edges) > 0
	}
	return false
}

// EdgeFilter may prune CFG edges (from block, successor index) during a path search.
type EdgeFilter func(from *ssa.BasicBlock, succ int) bool

// Search describes a path query inside one function.
type Search struct {
	Target Matcher    // instruction that ends the search successfully
	Avoid  Matcher    // instructions that kill a path (may be nil)
	Edge   EdgeFilter // nil = all edges
}

// Step is one element of a witness path.
type Step struct {
	Block *ssa.BasicBlock
}

// From searches paths starting right after instruction "from" (or from function entry when from is nil
// and fn given). It returns the target reached and true if a path exists that executes no Avoid
// instruction and no no-return call before it.
func (s Search) From(fn *ssa.Function, from ssa.Instruction) (ssa.Instruction, []int, bool) {
	type item struct {
		b     *ssa.BasicBlock
		start int
	}
	if fn == nil || len(fn.Blocks) == 0 {
		return nil, nil, false
	}
	var queue []item
	visited := map[*ssa.BasicBlock]bool{}
	parent := map[*ssa.BasicBlock]*ssa.BasicBlock{}
	if from == nil {
		queue = append(queue, item{fn.Blocks[0], 0})
		visited[fn.Blocks[0]] = true
	} else {
		queue = append(queue, item{from.Block(), Index(from) + 1})
	}
	first := true
	for len(queue) > 0 {
		it := queue[0]
		queue = queue[1:]
		dead := false
		for i := it.start; i < len(it.b.Instrs); i++ {
			in := it.b.Instrs[i]
			if s.Target != nil && s.Target(in) {
				var path []int
				onPath := map[*ssa.BasicBlock]bool{}
				for b := it.b; b != nil && !onPath[b]; b = parent[b] {
					onPath[b] = true
					path = append([]int{b.Index}, path...)
					if first {
						break
					}
				}
				return in, path, true
			}
			if (s.Avoid != nil && s.Avoid(in)) || IsNoReturn(in) {
				dead = true
				break
			}
		}
		first = false
		if dead {
			continue
		}
		for si, succ := range it.b.Succs {
			if s.Edge != nil && !s.Edge(it.b, si) {
				continue
			}
			if !visited[succ] {
				visited[succ] = true
				if _, ok := parent[succ]; !ok && succ != it.b {
					parent[succ] = it.b
				}
				queue = append(queue, item{succ, 0})
			}
		}
	}
	return nil, nil, false
}

// IsReturn matches return instructions.
func IsReturn(in ssa.Instruction) bool { _, ok := in.(*ssa.Return); return ok }

// ErrResultIndex returns the index of the last result of fn if it is of type error, else -1.
func ErrResultIndex(fn *ssa.Function) int {
	res := fn.Signature.Results()
	if res.Len() == 0 {
		return -1
	}
	if types.Identical(res.At(res.Len()-1).Type(), types.Universe.Lookup("error").Type()) {
		return res.Len() - 1
	}
	return -1
}

// IsNilConst reports whether v is the nil constant.
func IsNilConst(v ssa.Value) bool {
	c, ok := v.(*ssa.Const)
	return ok && c.Value == nil
}

// IsConstBool reports whether v is the boolean constant b.
func IsConstBool(v ssa.Value, b bool) bool {
	c, ok := v.(*ssa.Const)
	return ok && c.Value != nil && c.Value.Kind() == constant.Bool && constant.BoolVal(c.Value) == b
}

// DefinitelyNonNil reports whether value v (an error or pointer) is known non-nil at the end of block at:
// it is a freshly constructed value, or "at" is dominated by the non-nil branch of a nil test of v.
func DefinitelyNonNil(v ssa.Value, at *ssa.BasicBlock, depth int) bool {
	if depth > 6 {
		return false
	}
	switch x := v.(type) {
	case *ssa.MakeInterface, *ssa.Alloc, *ssa.MakeClosure, *ssa.MakeMap, *ssa.MakeSlice, *ssa.MakeChan:
		return true
	case *ssa.Call:
		switch n := CalleeName(x.Common()); {
		case n == "errors.New" || n == "fmt.Errorf" || strings.HasPrefix(n, "github.com/pkg/errors.") && n != "github.com/pkg/errors.Cause" && n != "github.com/pkg/errors.WithStack" && n != "github.com/pkg/errors.Wrap" && n != "github.com/pkg/errors.Wrapf" && n != "github.com/pkg/errors.WithMessage" && n != "github.com/pkg/errors.WithMessagef":
			return true
		case n == "github.com/pkg/errors.Wrap" || n == "github.com/pkg/errors.Wrapf" || n == "github.com/pkg/errors.WithMessage" || n == "github.com/pkg/errors.WithMessagef" || n == "github.com/pkg/errors.WithStack":
			return DefinitelyNonNil(x.Common().Args[0], at, depth+1)
		case strings.HasPrefix(n, "google.golang.org/grpc/status.Error"):
			return true
		}
	case *ssa.Phi:
		for i, e := range x.Edges {
			if !DefinitelyNonNil(e, x.Block().Preds[i], depth+1) {
				return false
			}
		}
		return len(x.Edges) > 0
	case *ssa.UnOp:
		if x.Op == token.MUL { // load of a global error variable such as ErrSegmentClosed
			if g, ok := x.X.(*ssa.Global); ok && strings.HasPrefix(g.Name(), "Err") || ok && strings.HasPrefix(g.Name(), "err") {
				return true
			}
		}
	}
	// dominated by a nil test
	for b := at; b != nil; b = b.Idom() {
		id := b.Idom()
		if id == nil {
			break
		}
		iff, ok := id.Instrs[len(id.Instrs)-1].(*ssa.If)
		if !ok {
			continue
		}
		bo, ok := iff.Cond.(*ssa.BinOp)
		if !ok {
			continue
		}
		var other ssa.Value
		if SameValue(bo.X, v) {
			other = bo.Y
		} else if SameValue(bo.Y, v) {
			other = bo.X
		} else {
			continue
		}
		if !IsNilConst(other) {
			continue
		}
		// which successor leads (exclusively) to b?
		tdom := id.Succs[0] == b || id.Succs[0].Dominates(b)
		fdom := id.Succs[1] == b || id.Succs[1].Dominates(b)
		// the successor must be entered only via this edge to carry the fact
		if bo.Op == token.NEQ && tdom && !fdom && len(id.Succs[0].Preds) == 1 {
			return true
		}
		if bo.Op == token.EQL && fdom && !tdom && len(id.Succs[1].Preds) == 1 {
			return true
		}
	}
	return false
}

// SameValue: identical SSA values, or loads of the same address in the same block with no intervening
// store (conservative: same address value only).
func SameValue(a, b ssa.Value) bool {
	if a == b {
		return true
	}
	return false
}

// SuccessExit matches return instructions that may return a nil error (or any return when the function
// has no error result).
func SuccessExit(fn *ssa.Function) Matcher {
	ei := ErrResultIndex(fn)
	return func(in ssa.Instruction) bool {
		r, ok := in.(*ssa.Return)
		if !ok {
			return false
		}
		if ei < 0 || ei >= len(r.Results) {
			return true
		}
		return !DefinitelyNonNil(Unspill(r.Results[ei], r), r.Block(), 0)
	}
}

// Path renders an access path for a value: params, fields, derefs, indexes. Used to key locks and
// guarded fields by "same receiver".
func Path(v ssa.Value) string { return path(v, 0) }

func path(v ssa.Value, d int) string {
	if d > 12 {
		return "?"
	}
	switch x := v.(type) {
	case *ssa.Parameter:
		return ParamName(x)
	case *ssa.FreeVar:
		return "free:" + x.Name()
	case *ssa.Global:
		return "global:" + x.Name()
	case *ssa.FieldAddr:
		return path(x.X, d+1) + "." + fieldName(x.X.Type(), x.Field)
	case *ssa.Field:
		return path(x.X, d+1) + "." + fieldName(x.X.Type(), x.Field)
	case *ssa.UnOp:
		if x.Op == token.MUL {
			if p := spilledParam(x.X); p != nil {
				return ParamName(p)
			}
			return path(x.X, d+1)
		}
	case *ssa.IndexAddr:
		return path(x.X, d+1) + "[]"
	case *ssa.Index:
		return path(x.X, d+1) + "[]"
	case *ssa.Lookup:
		return path(x.X, d+1) + "[]"
	case *ssa.ChangeType:
		return path(x.X, d+1)
	case *ssa.Convert:
		return path(x.X, d+1)
	case *ssa.MakeInterface:
		return path(x.X, d+1)
	case *ssa.ChangeInterface:
		return path(x.X, d+1)
	case *ssa.TypeAssert:
		return path(x.X, d+1)
	case *ssa.Alloc:
		if x.Comment != "" {
			return "local:" + x.Comment
		}
	case *ssa.Extract:
		return path(x.Tuple, d+1) + fmt.Sprintf("#%d", x.Index)
	case *ssa.Call:
		return "call:" + CalleeName(x.Common()) + fmt.Sprintf("@%d.%d", x.Block().Index, Index(x))
	case *ssa.Phi:
		return "phi:" + x.Name()
	case *ssa.Const:
		return "const:" + x.String()
	}
	return fmt.Sprintf("%T:%s", v, v.Name())
}

func fieldName(t types.Type, i int) string {
	if p, ok := t.Underlying().(*types.Pointer); ok {
		t = p.Elem()
	}
	if s, ok := t.Underlying().(*types.Struct); ok && i < s.NumFields() {
		return s.Field(i).Name()
	}
	return fmt.Sprintf("f%d", i)
}

// FieldOf returns the struct field object addressed by a FieldAddr/Field value (nil otherwise).
func FieldOf(v ssa.Value) *types.Var {
	var t types.Type
	var i int
	switch x := v.(type) {
	case *ssa.FieldAddr:
		t, i = x.X.Type(), x.Field
	case *ssa.Field:
		t, i = x.X.Type(), x.Field
	default:
		return nil
	}
	if p, ok := t.Underlying().(*types.Pointer); ok {
		t = p.Elem()
	}
	if s, ok := t.Underlying().(*types.Struct); ok && i < s.NumFields() {
		return s.Field(i)
	}
	return nil
}

// FieldQName is "pkgrel.Type.field" for a field selected on a named struct type.
func FieldQName(v ssa.Value) string {
	var t types.Type
	switch x := v.(type) {
	case *ssa.FieldAddr:
		t = x.X.Type()
	case *ssa.Field:
		t = x.X.Type()
	default:
		return ""
	}
	f := FieldOf(v)
	if f == nil {
		return ""
	}
	if p, ok := t.Underlying().(*types.Pointer); ok {
		t = p.Elem()
	}
	if p, ok := t.(*types.Pointer); ok {
		t = p.Elem()
	}
	if n, ok := t.(*types.Named); ok {
		pk := ""
		if n.Obj().Pkg() != nil {
			pk = Short(n.Obj().Pkg().Path()) + "."
		}
		return pk + n.Obj().Name() + "." + f.Name()
	}
	return f.Name()
}

// ParamName names a parameter by position ("recv", "arg0", ...) so that rules survive renames.
func ParamName(p *ssa.Parameter) string {
	fn := p.Parent()
	off := 0
	if fn.Signature.Recv() != nil {
		off = 1
	}
	for i, q := range fn.Params {
		if q == p {
			if off == 1 && i == 0 {
				return "recv"
			}
			return fmt.Sprintf("arg%d", i-off)
		}
	}
	return p.Name()
}

// Cond renders a branch condition over access paths, e.g. "recv.file == const:nil:*os.File".
func Cond(v ssa.Value) string {
	switch x := v.(type) {
	case *ssa.BinOp:
		return Cond(x.X) + " " + x.Op.String() + " " + Cond(x.Y)
	case *ssa.UnOp:
		if x.Op == token.NOT {
			return "!(" + Cond(x.X) + ")"
		}
	case *ssa.Const:
		if x.Value == nil {
			return "nil"
		}
		return x.Value.String()
	case *ssa.Call:
		var as []string
		for _, a := range x.Common().Args {
			as = append(as, Cond(a))
		}
		n := CalleeName(x.Common())
		if x.Common().IsInvoke() {
			as = append([]string{Cond(x.Common().Value)}, as...)
		}
		return n + "(" + strings.Join(as, ",") + ")"
	}
	return Path(v)
}

// PruneCond builds an EdgeFilter that drops the true (or false) edge of every If whose rendered
// condition equals cond: the search then only follows paths on which cond is false (or true).
func PruneCond(cond string, dropTrue bool) EdgeFilter {
	return func(from *ssa.BasicBlock, succ int) bool {
		iff, ok := from.Instrs[len(from.Instrs)-1].(*ssa.If)
		if !ok {
			return true
		}
		if Cond(iff.Cond) != cond {
			return true
		}
		if dropTrue {
			return succ != 0
		}
		return succ != 1
	}
}

// AndEdges combines edge filters.
func AndEdges(fs ...EdgeFilter) EdgeFilter {
	return func(from *ssa.BasicBlock, succ int) bool {
		for _, f := range fs {
			if f != nil && !f(from, succ) {
				return false
			}
		}
		return true
	}
}

// HasCond reports whether fn contains an If with the given rendered condition.
func HasCond(fn *ssa.Function, cond string) bool {
	for _, b := range fn.Blocks {
		if iff, ok := b.Instrs[len(b.Instrs)-1].(*ssa.If); ok && Cond(iff.Cond) == cond {
			return true
		}
	}
	return false
}

// Conds lists the rendered conditions of all Ifs in fn (for diagnostics).
func Conds(fn *ssa.Function) []string {
	var out []string
	for _, b := range fn.Blocks {
		if iff, ok := b.Instrs[len(b.Instrs)-1].(*ssa.If); ok {
			out = append(out, Cond(iff.Cond))
		}
	}
	return out
}

// StoreTo matches Store instructions whose address is the named field ("pkgrel.Type.field"); when val is
// non-nil the stored value must satisfy it.
func StoreTo(field string, val func(ssa.Value) bool) Matcher {
	return func(in ssa.Instruction) bool {
		st, ok := in.(*ssa.Store)
		if !ok {
			return false
		}
		if FieldQName(st.Addr) != field {
			return false
		}
		return val == nil || val(st.Val)
	}
}

// IsTrue / IsFalse are value predicates for boolean constants.
func IsTrue(v ssa.Value) bool  { return IsConstBool(v, true) }
func IsFalse(v ssa.Value) bool { return IsConstBool(v, false) }

// AppendedValues returns the values appended by a builtin append call of the form append(s, v1, v2...)
// (nil if the call is not such an append, or uses the s... spread form).
func AppendedValues(in ssa.Instruction) []ssa.Value {
	c, ok := in.(*ssa.Call)
	if !ok {
		return nil
	}
	b, ok := c.Call.Value.(*ssa.Builtin)
	if !ok || b.Name() != "append" || len(c.Call.Args) != 2 {
		return nil
	}
	sl, ok := c.Call.Args[1].(*ssa.Slice)
	if !ok {
		return nil
	}
	al, ok := sl.X.(*ssa.Alloc)
	if !ok {
		return nil
	}
	var out []ssa.Value
	for _, ref := range *al.Referrers() {
		ia, ok := ref.(*ssa.IndexAddr)
		if !ok {
			continue
		}
		for _, r2 := range *ia.Referrers() {
			if st, ok := r2.(*ssa.Store); ok && st.Addr == ia {
				out = append(out, st.Val)
			}
		}
	}
	return out
}

// GuardedByErrNil reports whether instruction in is dominated by the "err == nil" outcome of a nil test
// on the error produced by call (its last result). The guarding block must be entered only through
// that edge.
func GuardedByErrNil(in ssa.Instruction, call *ssa.Call) bool {
	errVals := map[ssa.Value]bool{}
	if call.Type() != nil {
		if tup, ok := call.Type().(*types.Tuple); ok {
			for _, ref := range *call.Referrers() {
				if ex, ok := ref.(*ssa.Extract); ok && ex.Index == tup.Len()-1 {
					errVals[ex] = true
				}
			}
		} else {
			errVals[call] = true
		}
	}
	for b := in.Block(); b != nil; b = b.Idom() {
		id := b.Idom()
		if id == nil {
			break
		}
		iff, ok := id.Instrs[len(id.Instrs)-1].(*ssa.If)
		if !ok {
			continue
		}
		bo, ok := iff.Cond.(*ssa.BinOp)
		if !ok {
			continue
		}
		var isErr bool
		if errVals[bo.X] && IsNilConst(bo.Y) || errVals[bo.Y] && IsNilConst(bo.X) {
			isErr = true
		}
		if !isErr {
			continue
		}
		okSucc := 1 // for NEQ the nil outcome is the false edge
		if bo.Op == token.EQL {
			okSucc = 0
		} else if bo.Op != token.NEQ {
			continue
		}
		s := id.Succs[okSucc]
		other := id.Succs[1-okSucc]
		if (s == in.Block() || s.Dominates(in.Block())) && len(s.Preds) == 1 && !(other == in.Block() || other.Dominates(in.Block())) {
			return true
		}
		// common shape: "if err != nil { ...; continue/return }" where the nil outcome falls through to a
		// join block that the error branch never reaches
		if s == in.Block() || s.Dominates(in.Block()) {
			if !reachesWithout(other, in.Block(), id) {
				return true
			}
		}
	}
	return false
}

// reachesWithout: can control get from block a to block target without passing through block cut?
func reachesWithout(a, target, cut *ssa.BasicBlock) bool {
	seen := map[*ssa.BasicBlock]bool{cut: true}
	stack := []*ssa.BasicBlock{a}
	for len(stack) > 0 {
		b := stack[len(stack)-1]
		stack = stack[:len(stack)-1]
		if b == target {
			return true
		}
		if seen[b] {
			continue
		}
		seen[b] = true
		if n := len(b.Instrs); n > 0 && IsNoReturn(b.Instrs[n-1]) {
			continue
		}
		dead := false
		for _, in := range b.Instrs {
			if IsNoReturn(in) {
				dead = true
				break
			}
		}
		if dead {
			continue
		}
		stack = append(stack, b.Succs...)
	}
	return false
}

// Unspill undoes go/ssa's result spilling in functions with defers: "*t1 = v; rundefers; t9 = *t1;
// return t9" — for a return operand that is a load of a local cell, the value last stored to that cell
// earlier in the same block is returned (the operand itself otherwise).
func Unspill(v ssa.Value, at ssa.Instruction) ssa.Value {
	ld, ok := v.(*ssa.UnOp)
	if !ok || ld.Op != token.MUL {
		return v
	}
	cell, ok := ld.X.(*ssa.Alloc)
	if !ok {
		return v
	}
	b := ld.Block()
	idx := Index(ld)
	for i := idx - 1; i >= 0; i-- {
		if st, ok := b.Instrs[i].(*ssa.Store); ok && st.Addr == cell {
			return st.Val
		}
	}
	return v
}

// WorldEdge builds an EdgeFilter for the hypothetical "integer value n equals val": at every If that
// compares n with an integer constant, only the outcome consistent with n == val is followed.
func WorldEdge(n ssa.Value, val int64) EdgeFilter {
	return func(from *ssa.BasicBlock, succ int) bool {
		iff, ok := from.Instrs[len(from.Instrs)-1].(*ssa.If)
		if !ok {
			return true
		}
		bo, ok := iff.Cond.(*ssa.BinOp)
		if !ok {
			return true
		}
		var c *ssa.Const
		var left bool
		if bo.X == n {
			c, _ = bo.Y.(*ssa.Const)
			left = true
		} else if bo.Y == n {
			c, _ = bo.X.(*ssa.Const)
		}
		if c == nil || c.Value == nil || c.Value.Kind() != constant.Int {
			return true
		}
		k := c.Int64()
		a, b := val, k
		if !left {
			a, b = k, val
		}
		var truth bool
		switch bo.Op {
		case token.GTR:
			truth = a > b
		case token.GEQ:
			truth = a >= b
		case token.LSS:
			truth = a < b
		case token.LEQ:
			truth = a <= b
		case token.EQL:
			truth = a == b
		case token.NEQ:
			truth = a != b
		default:
			return true
		}
		if truth {
			return succ == 0
		}
		return succ == 1
	}
}

// spilledParam: addr is a local cell that holds a parameter captured by a closure (go/ssa spills such
// parameters into an Alloc at entry) and is never reassigned; returns that parameter.
func spilledParam(addr ssa.Value) *ssa.Parameter {
	al, ok := addr.(*ssa.Alloc)
	if !ok || al.Referrers() == nil {
		return nil
	}
	var prm *ssa.Parameter
	for _, ref := range *al.Referrers() {
		if st, ok := ref.(*ssa.Store); ok && st.Addr == al {
			p, isParam := st.Val.(*ssa.Parameter)
			if !isParam || prm != nil {
				return nil
			}
			prm = p
		}
	}
	return prm
}

// RelEdge builds an EdgeFilter for the hypothetical relation rel (-1: x<y, 0: x==y, +1: x>y) between the two
// values selected by isX and isY: at every If that compares such a pair, only the consistent outcome is followed.
func RelEdge(isX, isY func(ssa.Value) bool, rel int) EdgeFilter {
	return func(from *ssa.BasicBlock, succ int) bool {
		iff, ok := from.Instrs[len(from.Instrs)-1].(*ssa.If)
		if !ok {
			return true
		}
		bo, ok := iff.Cond.(*ssa.BinOp)
		if !ok {
			return true
		}
		r := rel
		switch {
		case isX(bo.X) && isY(bo.Y):
		case isX(bo.Y) && isY(bo.X):
			r = -rel
		default:
			return true
		}
		var truth bool
		switch bo.Op {
		case token.GTR:
			truth = r > 0
		case token.GEQ:
			truth = r >= 0
		case token.LSS:
			truth = r < 0
		case token.LEQ:
			truth = r <= 0
		case token.EQL:
			truth = r == 0
		case token.NEQ:
			truth = r != 0
		default:
			return true
		}
		if truth {
			return succ == 0
		}
		return succ == 1
	}
}

// Canon renders a canonical symbolic expression for v: parameters by position, constants by value,
// operators and resolved callees applied to canonical operands, loop-carried phis as μ(name), loads as
// *addr. Two sibling functions computing the same function of their inputs yield equal strings.
func Canon(v ssa.Value) string { return canon(v, map[ssa.Value]bool{}, 0) }

func canon(v ssa.Value, seen map[ssa.Value]bool, d int) string {
	if v == nil {
		return "nil"
	}
	if d > 20 {
		return "…"
	}
	switch x := v.(type) {
	case *ssa.Const:
		if x.Value == nil {
			return "nil"
		}
		return x.Value.ExactString()
	case *ssa.Parameter:
		return ParamName(x)
	case *ssa.Phi:
		if seen[x] {
			return "μ(" + x.Comment + ")"
		}
		seen[x] = true
		var es []string
		for _, e := range x.Edges {
			es = append(es, canon(e, seen, d+1))
		}
		delete(seen, x)
		sort.Strings(es)
		return "φ[" + x.Comment + "](" + strings.Join(es, ",") + ")"
	case *ssa.BinOp:
		a, b := canon(x.X, seen, d+1), canon(x.Y, seen, d+1)
		switch x.Op {
		case token.ADD, token.MUL, token.AND, token.OR, token.XOR, token.EQL, token.NEQ:
			if b < a {
				a, b = b, a
			}
		}
		return "(" + a + " " + x.Op.String() + " " + b + ")"
	case *ssa.UnOp:
		return x.Op.String() + canon(x.X, seen, d+1)
	case *ssa.Convert:
		return canon(x.X, seen, d+1)
	case *ssa.ChangeType:
		return canon(x.X, seen, d+1)
	case *ssa.Call:
		var as []string
		for _, a := range x.Common().Args {
			as = append(as, canon(a, seen, d+1))
		}
		return CalleeName(x.Common()) + "(" + strings.Join(as, ",") + ")"
	case *ssa.FieldAddr:
		return canon(x.X, seen, d+1) + "." + fieldName(x.X.Type(), x.Field)
	case *ssa.Field:
		return canon(x.X, seen, d+1) + "." + fieldName(x.X.Type(), x.Field)
	case *ssa.IndexAddr:
		return canon(x.X, seen, d+1) + "[" + canon(x.Index, seen, d+1) + "]"
	case *ssa.Slice:
		return "slice(" + canon(x.X, seen, d+1) + ")"
	case *ssa.Alloc:
		// a local cell: describe by what is stored into it
		var ss []string
		if seen[x] {
			return "cell(" + x.Comment + ")"
		}
		seen[x] = true
		for _, ref := range *x.Referrers() {
			if st, ok := ref.(*ssa.Store); ok && st.Addr == x {
				ss = append(ss, canon(st.Val, seen, d+1))
			}
		}
		delete(seen, x)
		sort.Strings(ss)
		return "cell[" + x.Comment + "]{" + strings.Join(ss, "|") + "}"
	case *ssa.Extract:
		return canon(x.Tuple, seen, d+1) + fmt.Sprintf("#%d", x.Index)
	}
	return fmt.Sprintf("%T", v)
}
