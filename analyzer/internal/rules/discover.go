package rules

import (
	"fmt"
	"go/token"
	"go/types"
	"sort"
	"strings"

	"golang.org/x/tools/go/ssa"

	"bvcheck/internal/core"
	"bvcheck/internal/load"
	"bvcheck/internal/lockset"
	"bvcheck/internal/ssax"
)

// LockDiscovery is a discovery aid (Engler-style belief inference), never a verdict: for every struct in
// pkgs that has a mutex field, it counts for each other field how many accesses hold that mutex of the same
// value and prints the fields that are mostly — not always — accessed under it, with the deviant sites.
func LockDiscovery(p *load.Program, pkgs []string) {
	r := &R{Ctx: &core.Ctx{P: p}, P: p}
	type site struct {
		pos, fn, kind string
	}
	type stat struct {
		locked   int
		unlocked []site
	}
	stats := map[string]map[string]*stat{} // field -> lockField -> stat
	isMutex := func(t types.Type) bool {
		s := t.String()
		return s == "sync.Mutex" || s == "sync.RWMutex"
	}
	for _, fn := range p.ModuleFuncs(pkgs...) {
		base := r.fpos(fn)
		if strings.Contains(base, "benchmark_") || strings.Contains(base, "_test.go") {
			continue
		}
		ls := locksOf(fn)
		for _, b := range fn.Blocks {
			for _, in := range b.Instrs {
				fa, ok := in.(*ssa.FieldAddr)
				if !ok {
					continue
				}
				pt, ok := fa.X.Type().Underlying().(*types.Pointer)
				if !ok {
					continue
				}
				st, ok := pt.Elem().Underlying().(*types.Struct)
				if !ok {
					continue
				}
				fld := st.Field(fa.Field)
				ft := fld.Type().String()
				if isMutex(fld.Type()) || strings.HasPrefix(ft, "sync/atomic.") || strings.HasPrefix(ft, "sync.") || strings.HasPrefix(ft, "chan ") || strings.HasPrefix(ft, "atomic.") {
					continue
				}
				var lockFields []string
				for i := 0; i < st.NumFields(); i++ {
					if isMutex(st.Field(i).Type()) {
						lockFields = append(lockFields, st.Field(i).Name())
					}
				}
				if len(lockFields) == 0 {
					continue
				}
				q := ssax.FieldQName(fa)
				bp := ssax.Path(fa.X)
				if bp == "" || strings.HasPrefix(bp, "new") || !(strings.HasPrefix(bp, "recv") || strings.HasPrefix(bp, "arg") || strings.HasPrefix(bp, "free:")) {
					continue // freshly built value or unknown base: not shared yet / not trackable
				}
				refs := fa.Referrers()
				if refs == nil {
					continue
				}
				for _, ref := range *refs {
					var mode int
					var kind string
					var at ssa.Instruction
					switch x := ref.(type) {
					case *ssa.Store:
						if x.Addr != fa {
							continue
						}
						mode, kind, at = lockset.W, "write", x
					case *ssa.UnOp:
						mode, kind, at = lockset.R, "read", x
					default:
						continue
					}
					for _, lf := range lockFields {
						key := bp + "." + lf
						held := ls.At(at)[key] >= mode
						if !held && !strings.HasPrefix(bp, "free:") && fn.Parent() == nil {
							held, _ = r.heldAtEntry(fn, key, mode, 4)
						}
						if !held && fn.Parent() != nil {
							held = r.heldInClosure(fn, key, mode, 4)
						}
						if stats[q] == nil {
							stats[q] = map[string]*stat{}
						}
						if stats[q][lf] == nil {
							stats[q][lf] = &stat{}
						}
						if held {
							stats[q][lf].locked++
						} else {
							stats[q][lf].unlocked = append(stats[q][lf].unlocked, site{r.pos(at), ssax.FuncName(fn), kind})
						}
					}
				}
			}
		}
	}
	var keys []string
	for q := range stats {
		keys = append(keys, q)
	}
	sort.Strings(keys)
	for _, q := range keys {
		// best lock field
		var best string
		for lf, s := range stats[q] {
			if best == "" || s.locked > stats[q][best].locked {
				best = lf
			}
		}
		s := stats[q][best]
		tot := s.locked + len(s.unlocked)
		if s.locked < 3 || len(s.unlocked) == 0 || s.locked*10 < tot*6 {
			continue
		}
		fmt.Printf("%s  guarded by .%s in %d/%d accesses; deviants:\n", q, best, s.locked, tot)
		for _, u := range s.unlocked {
			fmt.Printf("    %s %s in %s\n", u.pos, u.kind, u.fn)
		}
	}
}

// SwallowedErrors is a discovery aid, never a verdict: it lists call sites in pkgs whose error result, when
// non-nil, still lets the function reach a success return or the next loop iteration (logged-and-continued,
// shadowed, overwritten). The reader decides which of them matter.
func SwallowedErrors(p *load.Program, pkgs []string) {
	ctx := &core.Ctx{P: p}
	r := &R{Ctx: ctx, P: p}
	n := 0
	for _, fn := range p.ModuleFuncs(pkgs...) {
		pos := r.fpos(fn)
		if strings.Contains(pos, "benchmark_") || strings.Contains(pos, "migration_") || strings.Contains(pos, ".pb.") {
			continue
		}
		okExit := false
		if res := fn.Signature.Results(); res.Len() > 0 && res.At(res.Len()-1).Type().String() == "error" {
			okExit = true
		}
		if !okExit {
			continue // only functions that can report an error themselves
		}
		for _, b := range fn.Blocks {
			for _, in := range b.Instrs {
				c, ok := in.(*ssa.Call)
				if !ok {
					continue
				}
				sig := c.Common().Signature()
				k := sig.Results().Len()
				if k == 0 || sig.Results().At(k-1).Type().String() != "error" {
					continue
				}
				before := len(ctx.Obs)
				r.errorNeverSwallowed("discover.swallowed", fn, c, "")
				obs := ctx.Obs
				if len(obs) > before && obs[len(obs)-1].Status == core.Violated {
					n++
					fmt.Printf("%s: %s swallows the error of %s\n", r.pos(c), ssax.FuncName(fn), ssax.CalleeName(c.Common()))
				}
			}
		}
	}
	fmt.Println(n, "site(s)")
}

// NilPhiDerefs is a discovery aid: dereferences (load, field address, method call on pointer receiver is not
// included) of a phi that has a nil-constant edge, reachable in the world "that value is nil".
func NilPhiDerefs(p *load.Program, pkgs []string) {
	r := &R{Ctx: &core.Ctx{P: p}, P: p}
	n := 0
	for _, fn := range p.ModuleFuncs(pkgs...) {
		for _, b := range fn.Blocks {
			for _, in := range b.Instrs {
				var ptr ssa.Value
				switch x := in.(type) {
				case *ssa.UnOp:
					if x.Op == token.MUL {
						ptr = x.X
					}
				case *ssa.FieldAddr:
					ptr = x.X
				}
				phi, ok := ptr.(*ssa.Phi)
				if !ok {
					continue
				}
				hasNil := false
				for _, e := range phi.Edges {
					if ssax.IsNilConst(e) {
						hasNil = true
					}
				}
				if !hasNil {
					continue
				}
				atom := func(v ssa.Value) (bool, bool) {
					bo, ok := v.(*ssa.BinOp)
					if !ok || bo.Op != token.EQL && bo.Op != token.NEQ {
						return false, false
					}
					if bo.X == ssa.Value(phi) && ssax.IsNilConst(bo.Y) || bo.Y == ssa.Value(phi) && ssax.IsNilConst(bo.X) {
						return bo.Op == token.EQL, true
					}
					return false, false
				}
				target := func(x ssa.Instruction) bool { return x == in }
				if _, _, found := worldSearch(fn, phi, target, atom); found {
					n++
					fmt.Printf("%s: %s dereferences %s, which is nil on some edge and not re-tested\n", r.pos(in), ssax.FuncName(fn), phi.Comment)
				}
			}
		}
	}
	fmt.Println(n, "site(s)")
}
