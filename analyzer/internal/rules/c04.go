package rules

import (
	"fmt"
	"go/token"
	"go/types"
	"strings"
	"syscall"

	"golang.org/x/tools/go/ssa"

	"bvcheck/internal/core"
	"bvcheck/internal/ssax"
)

type sib struct{ pkg, tag string }

var (
	sibM    = sib{"banyand/measure", "M"}
	sibS    = sib{"banyand/stream", "S"}
	sibT    = sib{"banyand/trace", "T"}
	sibX    = sib{"banyand/internal/sidx", "X"}
	sibsMST = []sib{sibM, sibS, sibT}
	sibsAll = []sib{sibM, sibS, sibT, sibX}
)

const (
	fsWriteAtomic = "iface:(pkg/fs.FileSystem).WriteAtomic"
	fsWrite       = "iface:(pkg/fs.FileSystem).Write"
	fsMustRMAll   = "iface:(pkg/fs.FileSystem).MustRMAll"
	fsDeleteFile  = "iface:(pkg/fs.FileSystem).DeleteFile"
)

// closeOfField matches close(x.<field>) builtin calls.
func closeOfField(field string) NM {
	return NM{"close(" + field + ")", func(in ssa.Instruction) bool {
		c, ok := in.(*ssa.Call)
		if !ok {
			return false
		}
		b, ok := c.Call.Value.(*ssa.Builtin)
		if !ok || b.Name() != "close" || len(c.Call.Args) != 1 {
			return false
		}
		return strings.HasSuffix(ssax.Path(c.Call.Args[0]), "."+field)
	}}
}

// isNilTestOfType: the If at the end of block compares a value of named pointer type *pkg.typ with nil;
// returns the successor index of the "is nil" outcome, or -1.
func nilOutcomeOfType(b *ssa.BasicBlock, typName string) int {
	iff, ok := b.Instrs[len(b.Instrs)-1].(*ssa.If)
	if !ok {
		return -1
	}
	bo, ok := iff.Cond.(*ssa.BinOp)
	if !ok || (bo.Op != token.EQL && bo.Op != token.NEQ) {
		return -1
	}
	var v ssa.Value
	if ssax.IsNilConst(bo.Y) {
		v = bo.X
	} else if ssax.IsNilConst(bo.X) {
		v = bo.Y
	} else {
		return -1
	}
	pt, ok := v.Type().(*types.Pointer)
	if !ok {
		return -1
	}
	n, ok := pt.Elem().(*types.Named)
	if !ok || n.Obj().Name() != typName {
		return -1
	}
	if bo.Op == token.EQL {
		return 0
	}
	return 1
}

// dropNilOutcome prunes the "is nil" edge of nil tests on values of type *<typName>.
func dropNilOutcome(typName string) ssax.EdgeFilter {
	return func(from *ssa.BasicBlock, succ int) bool {
		return nilOutcomeOfType(from, typName) != succ
	}
}

// fieldNilTest: the If at the end of b compares a load of field <field> with nil; returns succ index of
// the nil outcome or -1.
func fieldNilOutcome(b *ssa.BasicBlock, field string) int {
	iff, ok := b.Instrs[len(b.Instrs)-1].(*ssa.If)
	if !ok {
		return -1
	}
	bo, ok := iff.Cond.(*ssa.BinOp)
	if !ok || (bo.Op != token.EQL && bo.Op != token.NEQ) {
		return -1
	}
	var v ssa.Value
	if ssax.IsNilConst(bo.Y) {
		v = bo.X
	} else if ssax.IsNilConst(bo.X) {
		v = bo.Y
	} else {
		return -1
	}
	if !strings.HasSuffix(ssax.Path(v), "."+field) {
		return -1
	}
	if bo.Op == token.EQL {
		return 0
	}
	return 1
}

// keepFieldNil keeps only the outcome where x.<field> is nil (wantNil) or non-nil.
func keepFieldNil(field string, wantNil bool) ssax.EdgeFilter {
	return func(from *ssa.BasicBlock, succ int) bool {
		n := fieldNilOutcome(from, field)
		if n < 0 {
			return true
		}
		if wantNil {
			return succ == n
		}
		return succ != n
	}
}

func isMpNilExpr(v ssa.Value) bool {
	bo, ok := v.(*ssa.BinOp)
	if !ok || bo.Op != token.EQL {
		return false
	}
	return ssax.IsNilConst(bo.Y) && strings.HasSuffix(ssax.Path(bo.X), ".mp") || ssax.IsNilConst(bo.X) && strings.HasSuffix(ssax.Path(bo.Y), ".mp")
}

func init() {
	register(&core.Property{
		ID:    "C04",
		Title: "A crash at any point recovers to a consistent durable prefix",
		Decides: "the ordering protocol crash-consistency rests on, on every path of the anchored functions: WriteAtomic = write(tmp)→fsync→close→rename→fsync(dir); " +
			"Write syncs before success; LocalFile/seqWriter close paths sync and the seqSynced flag is reset by every write; part metadata (the commit record) is written last and atomically in mustFlush/FinishSync/mergeParts (M,S,T,X); " +
			"snapshot manifests are written atomically, before garbage registration; only registerSnapshot feeds the delete list; flushed/merged/synced introductions persist the manifest before close(applied); " +
			"a failed merge removes its output on every exit; startup keeps a part only if its name parses and its metadata validates, tries snapshots newest-first; raw os file mutation stays out of the engine packages; WriteAtomic opens its temporary sibling truncated (a tmp left by a crashed attempt cannot leak its tail); on trace recovery the secondary index is told the MANIFEST's part list, not the directory scan; a segment whose metadata file exists but is empty is discarded as half-born, never handed to the parser.; in the trace introductions the transitions that pin the superseded core and secondary-index snapshots are released only after the new manifest is persisted (never by a direct call before persistSnapshot)",
		NotDecided: "that the state found after a crash is a prefix of acknowledged batches; kernel power-loss semantics; torn writes inside one write(2).",
		Technique:  "CFG must-pass-through / dominance ordering rules on SSA with interprocedural definitely-calls summaries; who-may-call and field-write confinement; value-world pruning (zero-length metadata file); constant open flags; SSA def-use of the list handed to the secondary index",
		Run:        runC04,
	})
}

func runC04(c *core.Ctx) {
	r := newR(c)
	const fsPkg = "pkg/fs"
	osWrite, osSync, osClose := call("(*os.File).Write"), call("(*os.File).Sync"), call("(*os.File).Close")

	// 1. WriteAtomic
	if f := r.fn("c04.write-atomic.order", fsPkg, "(*localFileSystem).WriteAtomic"); f != nil {
		r.mustSeq("c04.write-atomic.order", f, exitOK(f), nil, osWrite, osSync, osClose, call("os.Rename"), call("pkg/fs.syncDir"))
		r.neverBefore("c04.write-atomic.order", f, osSync, call("os.Rename"), nil)
		// temp name derives from name; rename(tmp, name)
		rule := "c04.write-atomic.names"
		construct := ssax.FuncName(f) + ": tmp = name+const; rename(tmp, name)"
		ok := false
		var pos string
		for _, in := range ssax.Find(f, ssax.CallTo("os.Rename")) {
			a := in.(*ssa.Call).Call.Args
			pos = r.pos(in)
			bo, isBin := a[0].(*ssa.BinOp)
			if isBin && bo.Op == token.ADD && ssax.Path(bo.X) == "arg1" && ssax.Path(a[1]) == "arg1" {
				if _, isC := bo.Y.(*ssa.Const); isC {
					for _, op := range ssax.Find(f, ssax.CallTo("os.OpenFile")) {
						if op.(*ssa.Call).Call.Args[0] == a[0] {
							ok = true
						}
					}
				}
			}
		}
		r.Check(ok, rule, construct, pos, "the file opened for writing is name+<const> and os.Rename moves exactly that file onto the name parameter")
	}
	// 1b. the temporary sibling starts empty: a tmp left by a crashed attempt must not leak its tail
	if f := r.fn("c04.write-atomic.tmp-fresh", fsPkg, "(*localFileSystem).WriteAtomic"); f != nil {
		rule := "c04.write-atomic.tmp-fresh"
		for _, in := range ssax.Find(f, ssax.CallTo("os.OpenFile")) {
			a := in.(*ssa.Call).Call.Args
			construct := ssax.FuncName(f) + ": tmp file opened with O_TRUNC or O_EXCL"
			c, ok := a[1].(*ssa.Const)
			if !ok || c.Value == nil {
				r.Undecide(rule, construct, r.pos(in), "open flags are not a compile-time constant")
				continue
			}
			flags := c.Int64()
			// a preceding removal or a following Truncate(0) would do as well
			other := len(ssax.Find(f, func(x ssa.Instruction) bool {
				return (ssax.CallTo("os.Remove", "os.Truncate", "(*os.File).Truncate")(x)) && ssax.Dominates(x, in)
			})) > 0 || len(ssax.Find(f, func(x ssa.Instruction) bool {
				return ssax.CallTo("(*os.File).Truncate")(x) && ssax.Dominates(in, x)
			})) > 0
			r.Check(flags&int64(syscall.O_TRUNC|syscall.O_EXCL) != 0 || other, rule, construct, r.pos(in),
				fmt.Sprintf("flags=%#x: WriteAtomic leaves <name>.tmp behind when the process dies before the rename; without O_TRUNC/O_EXCL the next attempt writes over the head of the stale file and renames a payload with a foreign tail into place", flags))
		}
		r.Floor(rule, 1)
	}
	if f := r.fn("c04.syncdir", fsPkg, "syncDir"); f != nil {
		r.mustSeq("c04.syncdir", f, exitOK(f), nil, call("os.Open"), osSync)
	}
	// 2. Write, Close paths
	if f := r.fn("c04.write.sync", fsPkg, "(*localFileSystem).Write"); f != nil {
		r.mustSeq("c04.write.sync", f, exitOK(f), nil, osWrite, osSync)
	}
	if f := r.fn("c04.syncfile", fsPkg, "syncFile"); f != nil {
		r.mustSeq("c04.syncfile", f, exitOK(f), nil, osSync)
	}
	if f := r.fn("c04.localfile.close", fsPkg, "(*LocalFile).Close"); f != nil {
		// on paths where the file is writable and not already synced, syncFile precedes file.Close
		edge := ssax.AndEdges(ssax.PruneCond("recv.writable", false), ssax.PruneCond("recv.seqSynced", true))
		r.neverBefore("c04.localfile.close", f, call("pkg/fs.syncFile"), osClose, edge)
		r.mustSeq("c04.localfile.close", f, exitOK(f), nil, osClose)
	}
	seqSynced := "pkg/fs.LocalFile.seqSynced"
	if f := r.fn("c04.seqwriter.close", fsPkg, "(*seqWriter).Close"); f != nil {
		edge := ssax.PruneCond("recv.file == nil", true)
		syncs := call("pkg/fs.SyncAndDropCache", "(*os.File).Sync")
		r.mustSeq("c04.seqwriter.close", f, exitOK(f), edge, call("(*bufio.Writer).Flush"), syncs)
		r.neverBefore("c04.seqwriter.close", f, syncs, NM{"seqSynced=true", ssax.StoreTo(seqSynced, ssax.IsTrue)}, nil)
	}
	if f := r.fn("c04.sync-and-drop", fsPkg, "SyncAndDropCache"); f != nil {
		r.mustSeq("c04.sync-and-drop", f, exitOK(f), nil, call("golang.org/x/sys/unix.Fdatasync", "golang.org/x/sys/unix.Fsync"))
	}
	// every write through a LocalFile invalidates the "already synced" flag
	reset := NM{"seqSynced=false", ssax.StoreTo(seqSynced, ssax.IsFalse)}
	for _, name := range []string{"(*LocalFile).Write", "(*LocalFile).Writev"} {
		if f := r.fn("c04.seqsynced.reset", fsPkg, name); f != nil {
			// after each os.File.Write whose byte count is positive, the flag is cleared before any exit
			edge := func(from *ssa.BasicBlock, succ int) bool {
				iff, ok := from.Instrs[len(from.Instrs)-1].(*ssa.If)
				if !ok {
					return true
				}
				bo, ok := iff.Cond.(*ssa.BinOp)
				if !ok {
					return true
				}
				ex, ok := bo.X.(*ssa.Extract)
				if !ok || ex.Index != 0 {
					return true
				}
				if cl, ok := ex.Tuple.(*ssa.Call); !ok || ssax.CalleeName(cl.Common()) != "(*os.File).Write" {
					return true
				}
				if k, ok := bo.Y.(*ssa.Const); ok && k.Int64() == 0 && bo.Op == token.GTR {
					return succ == 0 // follow only the size>0 outcome
				}
				return true
			}
			rule := "c04.seqsynced.reset"
			construct := ssax.FuncName(f) + ": os.File.Write(n>0) ⇒ seqSynced=false before return"
			bad := false
			ws := ssax.Find(f, osWrite.M)
			if len(ws) == 0 {
				r.Violate(rule, construct, r.fpos(f), "no os.File.Write call found")
				continue
			}
			for _, w := range ws {
				if tgt, path, found := (ssax.Search{Target: ssax.IsReturn, Avoid: reset.M, Edge: edge}).From(f, w); found {
					r.Violate(rule, construct, r.pos(tgt), fmt.Sprintf("return at %s reachable after a positive-size write at %s without clearing seqSynced (%s): a later Close would skip the fsync", r.pos(tgt), r.pos(w), blocksStr(path)))
					bad = true
				}
			}
			if !bad {
				r.Hold(rule, construct, r.fpos(f), fmt.Sprintf("%d write site(s)", len(ws)))
			}
		}
	}
	if f := r.fn("c04.seqsynced.reset", fsPkg, "(*LocalFile).SequentialWrite"); f != nil {
		r.mustSeq("c04.seqsynced.reset", f, exitAny, nil, reset)
	}
	r.Floor("c04.seqsynced.reset", 3)
	// who may set the flag to true: only seqWriter.Close
	{
		rule := "c04.seqsynced.set"
		n := 0
		for _, f := range r.P.ModuleFuncs("pkg/fs") {
			for _, in := range ssax.Find(f, ssax.StoreTo(seqSynced, nil)) {
				st := in.(*ssa.Store)
				if ssax.IsFalse(st.Val) {
					continue
				}
				n++
				r.Check(ssax.FuncName(f) == "(*pkg/fs.seqWriter).Close", rule, "store non-false to seqSynced in "+ssax.FuncName(f), r.pos(in), "only seqWriter.Close (after its sync) may mark a LocalFile as synced")
			}
		}
		r.Floor(rule, 1)
	}

	// 3. commit record last
	for _, s := range sibsAll {
		dataWrites := call("pkg/fs.MustFlush", "pkg/fs.MustFlushAtomic", fsWrite, fsWriteAtomic,
			"("+s.pkg+".tagType).mustWriteTagType", "(*"+s.pkg+".traceIDFilter).mustWriteTraceIDFilter", "("+s.pkg+".traceIDFilter).mustWriteTraceIDFilter")
		meta := call("(*" + s.pkg + ".partMetadata).mustWriteMetadata")
		rule := "c04.commit-record-last"
		if f := r.fn(rule, s.pkg, "(*memPart).mustFlush"); f != nil {
			var edge ssax.EdgeFilter
			if s.tag == "X" {
				edge = ssax.PruneCond("recv.partMetadata != nil", false)
			}
			r.mustSeq(rule, f, exitAny, edge, call("iface:(pkg/fs.FileSystem).MkdirPanicIfExist"), dataWrites, meta)
			r.neverAfter(rule, f, meta, dataWrites, nil)
		}
		if f := r.fn("c04.metadata-atomic", s.pkg, "(*partMetadata).mustWriteMetadata"); f != nil {
			r.mustSeq("c04.metadata-atomic", f, exitAny, nil, reaching(2, fsWriteAtomic))
			r.Check(len(ssax.FindDeep(f, ssax.CallTo(fsWrite, "pkg/fs.MustFlush"))) == 0, "c04.metadata-atomic", ssax.FuncName(f)+": no non-atomic write", r.fpos(f), "the commit record is never written with plain Write/MustFlush")
		}
		if s.tag == "X" {
			continue
		}
		if f := r.fn(rule, s.pkg, "(*syncPartContext).FinishSync"); f != nil {
			var edge ssax.EdgeFilter
			if s.tag == "T" {
				edge = ssax.PruneCond("recv.partPath == \"\"", true)
			}
			rel := call("(*" + s.pkg + ".syncPartContext).releaseCoreWriters")
			add := call("(*" + s.pkg + ".tsTable).mustAddFilePart")
			clear := NM{"partPath=\"\"", ssax.StoreTo(s.pkg+".syncPartContext.partPath", nil)}
			r.mustSeq(rule, f, exitOK(f), edge, rel, meta, add, clear)
			r.neverAfter(rule, f, meta, call("pkg/fs.MustFlush", "pkg/fs.MustFlushAtomic", fsWrite, fsWriteAtomic), nil)
			r.neverBefore(rule, f, add, clear, nil)
		}
		if f := r.fn("c04.snapshot-atomic", s.pkg, "(*tsTable).mustWriteSnapshot"); f != nil {
			r.mustSeq("c04.snapshot-atomic", f, exitAny, nil, reaching(2, fsWriteAtomic))
			r.Check(len(ssax.FindDeep(f, ssax.CallTo(fsWrite, "pkg/fs.MustFlush"))) == 0, "c04.snapshot-atomic", ssax.FuncName(f)+": no non-atomic write", r.fpos(f), "the snapshot manifest is never written with plain Write/MustFlush")
		}
		// 4. manifest before garbage
		reg := "(*" + s.pkg + ".garbageCleaner).registerSnapshot"
		if f := r.fn("c04.manifest-before-gc", s.pkg, "(*tsTable).persistSnapshot"); f != nil {
			r.mustSeq("c04.manifest-before-gc", f, exitAny, nil, call("(*"+s.pkg+".tsTable).mustWriteSnapshot"), call(reg))
			r.neverBefore("c04.manifest-before-gc", f, call("(*"+s.pkg+".tsTable).mustWriteSnapshot"), call(reg), nil)
		}
		if f := r.fn("c04.gc.who-registers", s.pkg, "(*garbageCleaner).registerSnapshot"); f != nil {
			r.whoMayCall("c04.gc.who-registers", f, []string{"(*" + s.pkg + ".tsTable).persistSnapshot", "(*" + s.pkg + ".tsTable).loadSnapshot"})
		}
		// only registerSnapshot / clean write the delete list and the live epoch
		for _, fld := range []string{"deletableEpochs", "liveEpoch"} {
			rule := "c04.gc.field-writers"
			q := s.pkg + ".garbageCleaner." + fld
			n := 0
			okAll := true
			var where string
			for _, f := range r.P.ModuleFuncs(s.pkg) {
				for _, in := range ssax.Find(f, ssax.StoreTo(q, nil)) {
					n++
					fnm := ssax.FuncName(f)
					where = r.pos(in)
					if fnm != reg && !(fld == "deletableEpochs" && fnm == "(*"+s.pkg+".garbageCleaner).clean") {
						r.Violate(rule, q+" written in "+fnm, r.pos(in), "only registerSnapshot (and clean, for the retry list) may change which manifests are deletable")
						okAll = false
					}
				}
			}
			if n == 0 {
				r.Violate(rule, q, "", "no writer found: field renamed or removed")
			} else if okAll {
				r.Hold(rule, q, where, fmt.Sprintf("%d store(s), all inside registerSnapshot/clean", n))
			}
		}
		// clean deletes only names built from deletableEpochs
		if f := r.fn("c04.gc.clean-source", s.pkg, "(*garbageCleaner).clean"); f != nil {
			rule := "c04.gc.clean-source"
			dels := ssax.Find(f, ssax.CallTo(fsDeleteFile, fsMustRMAll))
			ok := len(dels) > 0
			for _, d := range dels {
				if !flowsFromField(d.(*ssa.Call).Call.Args[0], "deletableEpochs", 0) {
					ok = false
					r.Violate(rule, ssax.FuncName(f)+": deleted path derives from deletableEpochs", r.pos(d), "a path deleted by the garbage cleaner does not derive from an element of deletableEpochs")
				}
			}
			if ok {
				r.Hold(rule, ssax.FuncName(f)+": deleted path derives from deletableEpochs", r.fpos(f), fmt.Sprintf("%d delete call(s)", len(dels)))
			}
		}
		// 5. durable before acknowledged
		persist := func(in ssa.Instruction) bool {
			cl, ok := in.(*ssa.Call)
			if !ok {
				return false
			}
			switch ssax.CalleeName(cl.Common()) {
			case "(*" + s.pkg + ".tsTable).persistSnapshot":
				return true
			case "(*" + s.pkg + ".tsTable).replaceSnapshot":
				if len(cl.Call.Args) == 3 {
					return ssax.IsTrue(cl.Call.Args[2]) || isMpNilExpr(cl.Call.Args[2])
				}
			}
			return false
		}
		publish := ssax.CallTo("(*"+s.pkg+".tsTable).replaceSnapshot", "(*"+s.pkg+".tsTable).commitSnapshotTransaction")
		names := []string{"introducePart", "introduceFlushed", "introduceMerged", "introduceSync"}
		if s.tag == "T" {
			names = append(names, "introduceFlushedForSync")
		}
		for _, n := range names {
			rule := "c04.durable-before-ack"
			f := r.fn(rule, s.pkg, "(*tsTable)."+n)
			if f == nil {
				continue
			}
			construct := ssax.FuncName(f) + ": publish ⇒ persist manifest before close(applied)"
			edge := ssax.AndEdges(dropNilOutcome("snapshot"))
			if n == "introducePart" {
				edge = ssax.AndEdges(edge, keepFieldNil("mp", true))
			}
			pubs := ssax.Find(f, publish)
			cls := closeOfField("applied")
			if len(pubs) == 0 || len(ssax.Find(f, cls.M)) == 0 {
				r.Violate(rule, construct, r.fpos(f), "no snapshot publication call or no close(applied) found")
				continue
			}
			bad := false
			for _, p := range pubs {
				if persist(p) {
					continue
				}
				if tgt, path, found := (ssax.Search{Target: cls.M, Avoid: persist, Edge: edge}).From(f, p); found {
					r.Violate(rule, construct, r.pos(tgt), fmt.Sprintf("close(applied) at %s is reachable after publication at %s without persisting the snapshot manifest (%s)", r.pos(tgt), r.pos(p), blocksStr(path)))
					bad = true
				}
			}
			if !bad {
				r.Hold(rule, construct, r.fpos(f), fmt.Sprintf("%d publication site(s)", len(pubs)))
			}
		}
		if s.tag == "M" {
			if f := r.fn("c04.durable-before-ack", s.pkg, "(*tsTable).replaceSnapshot"); f != nil {
				r.mustSeq("c04.durable-before-ack", f, exitAny, ssax.PruneCond("arg1", false), call("(*"+s.pkg+".tsTable).persistSnapshot"))
			}
		}
	}
	r.Floor("c04.durable-before-ack", 14)
	r.Floor("c04.commit-record-last", 4*2+3*5)

	// 6. failed merge leaves nothing
	for _, s := range sibsAll {
		rule := "c04.merge-cleanup"
		recv := "(*tsTable)"
		if s.tag == "X" {
			recv = "(*sidx)"
		}
		f := r.fn(rule, s.pkg, recv+".mergeParts")
		if f == nil {
			continue
		}
		var cleanup *ssa.Function
		var deferIn ssa.Instruction
		for _, in := range ssax.Find(f, func(in ssa.Instruction) bool { _, ok := in.(*ssa.Defer); return ok }) {
			d := in.(*ssa.Defer)
			if mc, ok := d.Call.Value.(*ssa.MakeClosure); ok {
				fn := mc.Fn.(*ssa.Function)
				if len(ssax.Find(fn, ssax.CallTo(fsMustRMAll))) > 0 {
					cleanup, deferIn = fn, in
				}
			}
		}
		construct := ssax.FuncName(f) + ": deferred cleanup removes unpublished output"
		if cleanup == nil {
			r.Violate(rule, construct, r.fpos(f), "no deferred closure calling FileSystem.MustRMAll found in mergeParts: a failed or panicking merge would leave a partial part directory")
			continue
		}
		// in the closure: unless the published flag is set, every exit passes MustRMAll
		var flag string
		for _, cs := range ssax.Conds(cleanup) {
			if strings.HasPrefix(cs, "free:") && !strings.Contains(cs, " ") {
				flag = cs
			}
		}
		if flag == "" {
			r.Violate(rule, construct, r.fpos(cleanup), "cleanup closure has no published-flag test")
			continue
		}
		r.mustSeq(rule, cleanup, exitAny, ssax.PruneCond(flag, true), call(fsMustRMAll))
		// the defer is registered before the merge starts writing blocks
		mb := ssax.Find(f, func(in ssa.Instruction) bool {
			n := ssax.CalleeName(ssax.Common(in))
			return strings.HasSuffix(n, ".mergeBlocks") && ssax.Common(in) != nil && !isDefer(in)
		})
		okDom := len(mb) > 0
		for _, m := range mb {
			if !ssax.Dominates(deferIn, m) {
				okDom = false
			}
		}
		r.Check(okDom, rule, ssax.FuncName(f)+": cleanup registered before mergeBlocks", r.pos(deferIn), "the deferred cleanup dominates every mergeBlocks call")
		// the published flag is set only after the commit record was written and the part opened
		flagName := strings.TrimPrefix(flag, "free:")
		setFlag := NM{flagName + "=true", func(in ssa.Instruction) bool {
			st, ok := in.(*ssa.Store)
			if !ok || !ssax.IsTrue(st.Val) {
				return false
			}
			a, ok := st.Addr.(*ssa.Alloc)
			return ok && a.Comment == flagName
		}}
		meta := call("(*" + s.pkg + ".partMetadata).mustWriteMetadata")
		r.neverBefore(rule, f, meta, setFlag, nil)
		r.mustSeq("c04.merge-order", f, exitOK(f), nil, NM{"mergeBlocks", func(in ssa.Instruction) bool {
			_, isCall := in.(*ssa.Call)
			return isCall && strings.HasSuffix(ssax.CalleeName(ssax.Common(in)), ".mergeBlocks")
		}}, meta, NM{"mustOpenFilePart", func(in ssa.Instruction) bool {
			_, isCall := in.(*ssa.Call)
			return isCall && (strings.HasSuffix(ssax.CalleeName(ssax.Common(in)), ".mustOpenFilePart") || strings.HasSuffix(ssax.CalleeName(ssax.Common(in)), ".mustOpenPart"))
		}}, setFlag)
	}
	r.Floor("c04.merge-cleanup", 12)

	// 7. startup discipline
	for _, s := range sibsMST {
		rule := "c04.startup.validate"
		f := r.fn(rule, s.pkg, "initTSTable")
		if f == nil {
			continue
		}
		parse := ssax.Find(f, ssax.CallTo(s.pkg+".parseEpoch"))
		valid := ssax.Find(f, ssax.CallTo(s.pkg+".validatePartMetadata"))
		construct := ssax.FuncName(f) + ": part kept only if parseEpoch and validatePartMetadata succeed"
		if len(parse) != 1 || len(valid) != 1 {
			r.Violate(rule, construct, r.fpos(f), fmt.Sprintf("expected exactly one parseEpoch and one validatePartMetadata call, found %d and %d", len(parse), len(valid)))
			continue
		}
		// the append that keeps the part: appended value is the parseEpoch result
		var keeps []ssa.Instruction
		for _, in := range ssax.Find(f, func(in ssa.Instruction) bool { return len(ssax.AppendedValues(in)) > 0 }) {
			for _, v := range ssax.AppendedValues(in) {
				if ex, ok := v.(*ssa.Extract); ok && ex.Tuple == parse[0].(*ssa.Call) && ex.Index == 0 {
					keeps = append(keeps, in)
				}
			}
		}
		if len(keeps) == 0 {
			r.Violate(rule, construct, r.fpos(f), "no append of the parsed part id found")
			continue
		}
		ok := true
		for _, k := range keeps {
			if !ssax.GuardedByErrNil(k, parse[0].(*ssa.Call)) || !ssax.GuardedByErrNil(k, valid[0].(*ssa.Call)) {
				r.Violate(rule, construct, r.pos(k), "the part id is appended to the loaded list on a path where parseEpoch or validatePartMetadata may have failed")
				ok = false
			}
		}
		if ok {
			r.Hold(rule, construct, r.pos(keeps[0]), "append is dominated by the err==nil outcome of both checks")
		}
		// failed ones are deleted: on the err != nil outcome the name is appended to the delete list, and
		// the delete list is removed with MustRMAll
		r.Check(len(ssax.Find(f, ssax.CallTo(fsMustRMAll))) >= 2, rule, ssax.FuncName(f)+": invalid entries are removed", r.fpos(f), "MustRMAll calls present for invalid and orphaned entries")
		if op := r.fn("c04.startup.tmp-cleanup", s.pkg, "mustOpenFilePart"); op != nil {
			readMeta := NM{"read metadata", func(in ssa.Instruction) bool {
				n := ssax.CalleeName(ssax.Common(in))
				_, isCall := in.(*ssa.Call)
				return isCall && (strings.HasSuffix(n, ".mustReadMetadata") || strings.HasSuffix(n, ".mustOpenReader") || n == "iface:(pkg/fs.FileSystem).Read" || n == "iface:(pkg/fs.FileSystem).OpenFile")
			}}
			r.neverBefore("c04.startup.tmp-cleanup", op, call("pkg/fs.CleanupLeftoverTmp"), readMeta, nil)
		}
	}

	// 8. raw os mutation stays in pkg/fs (engine packages; offline migration/benchmark tools exempt by file)
	{
		rule := "c04.raw-os-confined"
		raw := ssax.AnyCallTo("os.Rename", "os.Remove", "os.RemoveAll", "os.WriteFile", "os.Create", "os.OpenFile", "os.Truncate", "os.Link", "os.Symlink", "(*os.File).Write", "(*os.File).WriteAt", "(*os.File).WriteString", "(*os.File).Truncate")
		exempt := func(file string) string {
			base := file[strings.LastIndex(file, "/")+1:]
			switch {
			case strings.HasPrefix(base, "migration_"):
				return "offline schema-migration tool, not the serving lifecycle"
			case strings.HasPrefix(base, "benchmark_"):
				return "benchmark harness"
			case file == "banyand/internal/storage/failed_parts_handler.go":
				return "quarantine directory of failed sync parts (never part of a table's manifest)"
			}
			return ""
		}
		nsites, nfun := 0, 0
		for _, f := range r.P.ModuleFuncs("banyand/measure", "banyand/stream", "banyand/trace", "banyand/internal/sidx", "banyand/internal/storage", "banyand/internal/snapshot") {
			nfun++
			for _, in := range ssax.Find(f, raw) {
				pos := r.pos(in)
				file := pos[:strings.LastIndex(pos, ":")]
				if why := exempt(file); why != "" {
					nsites++
					continue
				}
				r.Violate(rule, ssax.FuncName(f)+" calls "+ssax.CalleeName(ssax.Common(in)), pos, "engine code mutates files directly through package os instead of pkg/fs (which owns the sync/atomic-rename discipline)")
			}
		}
		r.Stat("functions_scanned_raw_os", nfun)
		r.Hold(rule, "engine packages", "", fmt.Sprintf("%d functions scanned; %d raw calls, all in exempt files (migration_*, benchmark_*, failed_parts_handler)", nfun, nsites))
	}

	// trace: the transitions pin the superseded core and sidx snapshots; releasing them deletes the replaced
	// parts, so it must not happen before the manifest that supersedes them is persisted
	{
		rule := "c04.release-after-persist"
		persist := call("(*" + sibT.pkg + ".tsTable).persistSnapshot")
		isRelease := func(in ssa.Instruction) bool {
			c, ok := in.(*ssa.Call) // a deferred Release runs at function exit, after everything else
			if !ok {
				return false
			}
			n := ssax.CalleeName(c.Common())
			return strings.HasPrefix(n, "(*banyand/internal/snapshot.Transition[") && strings.HasSuffix(n, ").Release")
		}
		n := 0
		for _, f := range r.P.ModuleFuncs(sibT.pkg) {
			if f.Parent() != nil || len(ssax.Find(f, persist.M)) == 0 {
				continue
			}
			uses := len(ssax.FindDeep(f, func(in ssa.Instruction) bool {
				cc := ssax.Common(in)
				if cc == nil {
					return false
				}
				nm := ssax.CalleeName(cc)
				return strings.HasPrefix(nm, "(*banyand/internal/snapshot.Transition[") && strings.HasSuffix(nm, ").Release")
			})) > 0
			if !uses {
				continue
			}
			n++
			construct := ssax.FuncName(f) + ": superseded snapshots released only after persistSnapshot"
			if tgt, path, found := (ssax.Search{Target: isRelease, Avoid: persist.M}).From(f, nil); found {
				r.Violate(rule, construct, r.pos(tgt), fmt.Sprintf("the transition is released at %s before the new manifest is persisted (blocks %s): the replaced parts (for the secondary index the transition holds the only reference) are deleted while the durable manifest still names them; a crash in that window recovers to a manifest whose index parts are gone", r.pos(tgt), blocksStr(path)))
			} else {
				r.Hold(rule, construct, r.fpos(f), "releases are deferred or follow persistSnapshot")
			}
		}
		r.Floor(rule, 3)
		_ = n
	}

	// recovery: the secondary index is told which parts are live from the MANIFEST, not from the directory scan
	if f := r.fn("c04.sidx-from-manifest", sibT.pkg, "(*tsTable).loadSnapshot"); f != nil {
		rule := "c04.sidx-from-manifest"
		n := 0
		for _, in := range ssax.Find(f, ssax.CallTo("(*"+sibT.pkg+".tsTable).loadSidxMap")) {
			n++
			arg := in.(*ssa.Call).Call.Args[len(in.(*ssa.Call).Call.Args)-1]
			construct := ssax.FuncName(f) + ": loadSidxMap receives the manifest's part list"
			fromManifest, rawScan := false, false
			seen := map[ssa.Value]bool{}
			var walk func(v ssa.Value)
			walk = func(v ssa.Value) {
				if seen[v] {
					return
				}
				seen[v] = true
				switch x := v.(type) {
				case *ssa.Parameter:
					rawScan = true
				case *ssa.Extract:
					walk(x.Tuple)
				case *ssa.Call:
					if strings.HasSuffix(ssax.CalleeName(x.Common()), ".readSnapshot") {
						fromManifest = true
					}
				case *ssa.Phi:
					for _, e := range x.Edges {
						walk(e)
					}
				case *ssa.Slice:
					walk(x.X)
				case *ssa.ChangeType:
					walk(x.X)
				}
			}
			walk(arg)
			switch {
			case rawScan:
				r.Violate(rule, construct, r.pos(in), "the list handed to the secondary index is the directory-scan parameter: parts written by a flush or merge that crashed before its manifest was published are kept and served by the index although the core parts were discarded as orphans")
			case fromManifest:
				r.Hold(rule, construct, r.pos(in), "argument is the result of readSnapshot")
			default:
				r.Hold(rule, construct, r.pos(in), "argument is a derived list (not the raw scan parameter)")
			}
		}
		if n == 0 {
			r.Undecide(rule, ssax.FuncName(f)+": loadSidxMap is called", r.fpos(f), "no loadSidxMap call in loadSnapshot")
		}
	}

	// recovery: a segment whose metadata file exists but is empty (crash between create and write) is
	// treated as half-born, never handed to the parser (whose error would abort the whole start-up)
	if f := r.fn("c04.half-born-segment", "banyand/internal/storage", "(*segmentController).open"); f != nil {
		rule := "c04.half-born-segment"
		n := 0
		for _, g := range append([]*ssa.Function{f}, f.AnonFuncs...) {
			for _, rd := range ssax.Find(g, ssax.CallTo("iface:(pkg/fs.FileSystem).Read")) {
				var raw ssa.Value
				for _, ref := range *rd.(*ssa.Call).Referrers() {
					if ex, ok := ref.(*ssa.Extract); ok && ex.Index == 0 {
						raw = ex
					}
				}
				parse := func(in ssa.Instruction) bool {
					c, ok := in.(*ssa.Call)
					if !ok || raw == nil {
						return false
					}
					if _, isB := c.Call.Value.(*ssa.Builtin); isB {
						return false
					}
					for _, a := range c.Call.Args {
						if a == raw {
							return true
						}
						if sl, ok := a.(*ssa.Slice); ok && sl.X == raw {
							return true
						}
					}
					return false
				}
				isLen := func(v ssa.Value) bool {
					c, ok := v.(*ssa.Call)
					if !ok {
						return false
					}
					b, ok := c.Call.Value.(*ssa.Builtin)
					return ok && b.Name() == "len" && c.Call.Args[0] == raw
				}
				// world: the read succeeded and returned an existing, zero-length file (non-nil empty slice)
				edge := func(from *ssa.BasicBlock, succ int) bool {
					iff, ok := from.Instrs[len(from.Instrs)-1].(*ssa.If)
					if !ok {
						return true
					}
					bo, ok := iff.Cond.(*ssa.BinOp)
					if !ok {
						return true
					}
					if isLen(bo.X) || isLen(bo.Y) {
						lv := bo.X
						if isLen(bo.Y) {
							lv = bo.Y
						}
						return ssax.WorldEdge(lv, 0)(from, succ)
					}
					if (bo.X == raw && ssax.IsNilConst(bo.Y) || bo.Y == raw && ssax.IsNilConst(bo.X)) && (bo.Op == token.EQL || bo.Op == token.NEQ) {
						if bo.Op == token.EQL {
							return succ == 1
						}
						return succ == 0
					}
					return true
				}
				if raw == nil || len(ssax.Find(g, parse)) == 0 {
					continue
				}
				n++
				construct := ssax.FuncName(g) + ": an empty metadata file never reaches the parser"
				if tgt, path, found := (ssax.Search{Target: parse, Edge: edge}).From(g, rd); found {
					// the parser itself may reject the empty input gracefully: look for a len(param) test at its entry
					if cal := tgt.(*ssa.Call).Call.StaticCallee(); cal != nil && len(cal.Params) > 0 && len(ssax.Find(cal, func(in ssa.Instruction) bool {
						c, ok := in.(*ssa.Call)
						if !ok {
							return false
						}
						b, ok := c.Call.Value.(*ssa.Builtin)
						return ok && b.Name() == "len" && c.Call.Args[0] == cal.Params[0]
					})) > 0 {
						r.Hold(rule, construct, r.pos(tgt), "the callee tests len() of its input itself")
						continue
					}
					r.Violate(rule, construct, r.pos(tgt), fmt.Sprintf("with a zero-length metadata file (created, never written: crash between create and write) control reaches %s (blocks %s): its parse error aborts opening the whole database instead of discarding the half-born segment", ssax.CalleeName(tgt.(*ssa.Call).Common()), blocksStr(path)))
				} else {
					r.Hold(rule, construct, r.pos(rd), "unreachable in the world len(rawMeta)==0, rawMeta!=nil")
				}
			}
		}
		if n == 0 {
			r.Undecide(rule, ssax.FuncName(f)+": metadata read-then-parse site found", r.fpos(f), "no Read→parse site in open")
		}
	}
}

func isDefer(in ssa.Instruction) bool { _, ok := in.(*ssa.Defer); return ok }

// flowsFromField: v is computed (through calls, conversions, phis, range/index) from a load of a field
// named field.
func flowsFromField(v ssa.Value, field string, depth int) bool {
	if depth > 12 || v == nil {
		return false
	}
	if fa, ok := v.(*ssa.FieldAddr); ok {
		if f := ssax.FieldOf(fa); f != nil && f.Name() == field {
			return true
		}
	}
	if fv, ok := v.(*ssa.Field); ok {
		if f := ssax.FieldOf(fv); f != nil && f.Name() == field {
			return true
		}
	}
	if al, ok := v.(*ssa.Alloc); ok {
		// values stored into the cell / array (varargs, composite literals)
		for _, ref := range *al.Referrers() {
			switch x := ref.(type) {
			case *ssa.Store:
				if x.Addr == al && flowsFromField(x.Val, field, depth+1) {
					return true
				}
			case *ssa.IndexAddr:
				for _, r2 := range *x.Referrers() {
					if st, ok := r2.(*ssa.Store); ok && st.Addr == x && flowsFromField(st.Val, field, depth+1) {
						return true
					}
				}
			}
		}
		return false
	}
	var ops []*ssa.Value
	if in, ok := v.(ssa.Instruction); ok {
		ops = in.Operands(ops)
	}
	for _, op := range ops {
		if op != nil && *op != nil && flowsFromField(*op, field, depth+1) {
			return true
		}
	}
	return false
}
