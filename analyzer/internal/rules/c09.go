package rules

import (
	"fmt"
	"go/token"
	"go/types"
	"strings"

	"golang.org/x/tools/go/ssa"

	"bvcheck/internal/core"
	"bvcheck/internal/ssax"
)

func init() {
	register(&core.Property{
		ID:    "C09",
		Title: "Ordered results are globally sorted; limit/offset is a window of them",
		Decides: "the two sidx heaps that feed descending scans order blocks with the max-key-first comparator, and that comparator is exactly lex(max key↓, min key↓, series↓, offset↓); every merge-heap / batch-sort comparator on the ordered-query paths induces exactly the order it must (key, direction flag, tie-breaks), over every weak ordering of its operands: iter/sort containerHeap, stream/sidx blockCursorHeap, sidx QueryResponseHeap, trace sidxStreamHeap, model.StreamResultHeap, the part/block merge heaps of measure, stream, trace and sidx, the batch sorters, SeriesList; " +
			"k-way mergers restore the heap (Fix/Pop) after advancing the top cursor before reading it again; in the distributed measure plan the limit handed to data nodes is offset+limit; the sidx cursor builder records a payload as seen only for elements inside the key range; the time window of an index-sorted stream batch offers every document to both its minimum and its maximum.; in the time-ordered stream scan the boundary of a growing group of overlapping parts is only ever raised (compared with its previous value, or max)",
		NotDecided: "that each input cursor is itself sorted, duplicates, early termination, exactly-once delivery of secondary-index entries, the composition of per-node windows into the global window.",
		Technique:  "finite-domain abstract interpretation of comparator syntax trees; CFG must-follow for heap discipline; SSA def-use of the pushed-down limit; guarded-call (seen only when in range); per-iteration must-test of sibling accumulators",
		Run:        runC09,
	})
}

var ij = [2]string{"$0", "$1"}
var ro = [2]string{"$r", "$0"}

func runC09(c *core.Ctx) {
	r := newR(c)
	rule := "c09.comparator"
	r.cmpLex(rule, "pkg/iter/sort", "containerHeap.Less", ij, "SortedField bytes, descending iff desc", kspec{Match: "SortedField", DescFlag: "desc"})
	r.cmpLex(rule, "banyand/internal/sidx", "QueryResponseHeap.Less", ij, "user key, ascending iff asc", kspec{Match: "response.Keys", AscFlag: "asc"})
	r.cmpLex(rule, "banyand/trace", "sidxStreamHeap.Less", ij, "current key, ascending iff asc", kspec{Match: "shards", AscFlag: "asc"})
	r.cmpLex(rule, "banyand/stream", "blockCursorHeap.Less", ij, "timestamp, ascending iff asc", kspec{Match: "timestamps", AscFlag: "asc"})
	r.cmpLex(rule, "pkg/query/model", "StreamResultHeap.Less", ij, "timestamp, ascending iff asc", kspec{Match: "Timestamps", AscFlag: "asc"})
	r.cmpLex(rule, "pkg/pb/v1", "SeriesList.Less", ij, "series ID ascending", kspec{Match: "ID"})
	for _, s := range []sib{sibM, sibS} {
		r.cmpLex(rule, s.pkg, "(*blockMetadata).less", ro, "lex(seriesID↑, min timestamp↑)", kspec{Match: "seriesID"}, kspec{Match: "timestamps.min"})
		r.cmpLex(rule, s.pkg, "(*partIterHeap).Less", ij, "lex(seriesID↑, min timestamp↑)", kspec{Match: "seriesID"}, kspec{Match: "timestamps.min"})
		r.cmpLex(rule, s.pkg, "(*partMergeIterHeap).Less", ij, "lex(seriesID↑, min timestamp↑)", kspec{Match: "seriesID"}, kspec{Match: "timestamps.min"})
	}
	r.cmpLex(rule, sibT.pkg, "(*blockMetadata).less", ro, "trace id ascending", kspec{Match: "traceID"})
	r.cmpLex(rule, sibT.pkg, "(*partMergeIterHeap).Less", ij, "trace id ascending", kspec{Match: "traceID"})
	r.cmpLex(rule, sibS.pkg, "(*elements).Less", ij, "lex(seriesID↑, timestamp↑)", kspec{Match: "seriesIDs"}, kspec{Match: "timestamps"})
	r.cmpLex(rule, sibX.pkg, "(*elements).Less", ij, "lex(seriesID↑, user key↑)", kspec{Match: "seriesIDs"}, kspec{Match: "userKeys"})
	r.cmpLex(rule, sibT.pkg, "(*traces).Less", ij, "trace id ascending", kspec{Match: "traceIDs"})
	r.cmpLex(rule, sibX.pkg, "(*blockMetadata).less", ro, "lex(seriesID↑, min key↑)", kspec{Match: "seriesID"}, kspec{Match: "minKey"})
	r.cmpLex(rule, sibX.pkg, "(*partMergeIterHeap).Less", ij, "lex(seriesID↑, min key↑)", kspec{Match: "seriesID"}, kspec{Match: "minKey"})
	r.cmpLex(rule, sibX.pkg, "(*blockMetadata).lessByKey", ro, "lex(min key↑, max key↑, seriesID↑, data offset↑)", kspec{Match: "minKey"}, kspec{Match: "maxKey"}, kspec{Match: "seriesID"}, kspec{Match: "dataBlock.offset"})
	// descending scans consume each block from its maximum key downwards, so their heaps must visit blocks by
	// descending MAX key; ordering by descending min key hides a wide block holding the greatest key (F45)
	r.cmpLex(rule, sibX.pkg, "(*blockMetadata).greaterByKey", ro, "lex(max key↓, min key↓, seriesID↓, data offset↓)", kspec{Match: "maxKey", Desc: true}, kspec{Match: "minKey", Desc: true}, kspec{Match: "seriesID", Desc: true}, kspec{Match: "dataBlock.offset", Desc: true})
	r.Floor(rule, 21)
	{
		rule := "c09.desc-scan-by-max-key"
		gbk := "(*" + sibX.pkg + ".blockMetadata).greaterByKey"
		for _, n := range []string{"(*partKeyIterHeap).Less", "(*seriesCursor).less"} {
			f := r.fn(rule, sibX.pkg, n)
			if f == nil {
				continue
			}
			construct := ssax.FuncName(f) + ": the descending order is the max-key-first comparator"
			if len(ssax.Find(f, call(gbk).M)) > 0 {
				r.Hold(rule, construct, r.fpos(f), "")
			} else {
				r.Violate(rule, construct, r.fpos(f), "the heap that feeds descending scans does not order blocks with greaterByKey (max key first): reversing the ascending min-key order lets a wide block holding the greatest key sink behind narrower blocks, and a bounded DESC query stops before reaching it")
			}
		}
		r.Floor(rule, 2)
	}
	if r.Tier == "thorough" {
		// discovery: comparators in the anchored packages that have no spec here (a warning for the
		// maintainer of the rule tables, never a violation)
		covered := map[string]bool{}
		for _, o := range r.Obs {
			if o.Rule == rule {
				covered[strings.SplitN(o.Construct, " ≡", 2)[0]] = true
			}
		}
		n := 0
		for _, f := range r.P.ModuleFuncs("banyand/measure", "banyand/stream", "banyand/trace", "banyand/internal/sidx", "pkg/iter/sort", "pkg/query/model", "pkg/query/logical", "banyand/dquery", "pkg/index/inverted") {
			nm := ssax.FuncName(f)
			if !(strings.HasSuffix(nm, ").Less") || strings.HasSuffix(nm, ").less")) || covered[nm] || strings.Contains(r.fpos(f), "benchmark_") || strings.Contains(r.fpos(f), "migration_") {
				continue
			}
			n++
			r.Note("unlisted-candidate comparator (no spec; not checked): %s at %s", nm, r.fpos(f))
		}
		r.Stat("unlisted_comparators", n)
	}

	// the window pushed to the sources is offset+limit, never limit alone
	rule = "c09.pushdown-window"
	n := 0
	for _, f := range r.P.ModuleFuncs("pkg/query/logical/measure", "pkg/query/logical/stream", "pkg/query/logical/trace") {
		for _, in := range ssax.Find(f, ssax.CallTo("pkg/query/logical.NewPushDownMaxSize")) {
			n++
			arg := in.(*ssa.Call).Call.Args[0]
			off := flowsFromCallSuffix(arg, ").GetOffset", 0)
			lim := flowsFromCallSuffix(arg, ").GetLimit", 0)
			r.Check(off && lim, rule, fmt.Sprintf("%s: PushDownMaxSize#%d = limit+offset", ssax.FuncName(f), n), r.pos(in), "the per-source maximum derives from both the limit and the offset of the request: each source must return enough rows for the global window")
		}
		if strings.HasSuffix(strings.Split(r.fpos(f), ":")[0], "_plan_distributed.go") {
			for _, in := range ssax.Find(f, func(in ssa.Instruction) bool {
				st, ok := in.(*ssa.Store)
				return ok && strings.HasSuffix(ssax.FieldQName(st.Addr), "QueryRequest.Limit")
			}) {
				n++
				v := in.(*ssa.Store).Val
				pushed := false // the value pushed down by PushDownMaxSize (itself checked to be limit+offset)
				for _, fld := range []string{"maxDataPointsSize", "maxElementSize", "maxTraceSize"} {
					pushed = pushed || flowsFromFieldNamed(v, fld, 0)
				}
				r.Check(pushed || flowsFromFieldNamed(v, "Offset", 0), rule, fmt.Sprintf("%s: node request Limit#%d includes the offset", ssax.FuncName(f), n), r.pos(in), "the limit sent to data nodes is limit+offset")
			}
		}
	}
	r.Floor(rule, 6)

	// the sidx cursor builder records a payload as seen only for elements inside the requested key range
	if f := r.fn("c09.seen-only-in-range", sibX.pkg, "(*blockCursorBuilder).appendElement"); f != nil {
		r.onlyWhenCall("c09.seen-only-in-range", f, call("(*"+sibX.pkg+".blockCursorBuilder).markSeen"), "(*"+sibX.pkg+".blockCursorBuilder).keyInRange", true, nil,
			"an element outside the key range must not be recorded as seen: a later in-range element carrying the same payload would be dropped as its duplicate, so a matching entry is not returned")
	}
	// time-ordered stream scan: a group of overlapping parts is closed by a boundary that is the running MAXIMUM
	// of the group's max timestamps; while a part joins an existing group the boundary is only ever raised
	if f := r.fn("c09.group-boundary-running-max", sibS.pkg, "getDisjointParts"); f != nil {
		rule := "c09.group-boundary-running-max"
		construct := ssax.FuncName(f) + ": the boundary of a growing group is only raised (guarded by a comparison with itself)"
		var pg, pb *ssa.Phi
		for _, b := range f.Blocks {
			if !isLoopHeader(b) {
				continue
			}
			for _, in := range b.Instrs {
				if p, ok := in.(*ssa.Phi); ok {
					if _, isSl := p.Type().Underlying().(*types.Slice); isSl && strings.HasPrefix(p.Type().String(), "[]*") && strings.HasSuffix(p.Type().String(), ".part") && pg == nil {
						pg = p
					}
					if bt, isB := p.Type().Underlying().(*types.Basic); isB && bt.Kind() == types.Int64 && pb == nil {
						pb = p
					}
				}
			}
		}
		if pg == nil || pb == nil || pg.Block() != pb.Block() {
			r.Undecide(rule, construct, r.fpos(f), "group / boundary loop variables not found in one loop header")
		} else {
			h := pg.Block()
			bad := ""
			n := iterationPaths(h, map[ssa.Value]bool{pg: true, pb: true}, func(path []*ssa.BasicBlock, resolve func(ssa.Value) ssa.Value) {
				if bad != "" {
					return
				}
				var eg, eb ssa.Value
				for j, q := range h.Preds {
					if q == path[len(path)-2] {
						eg, eb = resolve(pg.Edges[j]), resolve(pb.Edges[j])
					}
				}
				app, ok := eg.(*ssa.Call)
				if !ok {
					return
				}
				if bi, isB := app.Call.Value.(*ssa.Builtin); !isB || bi.Name() != "append" || resolve(app.Call.Args[0]) != ssa.Value(pg) {
					return // the group was restarted on this path
				}
				if eb == ssa.Value(pb) {
					return // boundary unchanged
				}
				guarded, fresh := false, false
				for i := 0; i+1 < len(path); i++ {
					iff, ok := path[i].Instrs[len(path[i].Instrs)-1].(*ssa.If)
					if !ok {
						continue
					}
					bo, ok := iff.Cond.(*ssa.BinOp)
					if !ok {
						continue
					}
					taken := 0
					if path[i].Succs[1] == path[i+1] {
						taken = 1
					}
					// len(group) == 0 taken true: the "group" is empty, this part starts it
					if c, isC := bo.X.(*ssa.Call); isC && bo.Op == token.EQL && taken == 0 {
						if bi, isB := c.Call.Value.(*ssa.Builtin); isB && bi.Name() == "len" && c.Call.Args[0] == ssa.Value(pg) {
							fresh = true
						}
					}
					x, y := bo.X, bo.Y
					switch {
					case x == eb && y == ssa.Value(pb) && (bo.Op == token.GTR || bo.Op == token.GEQ) && taken == 0,
						x == ssa.Value(pb) && y == eb && (bo.Op == token.LSS || bo.Op == token.LEQ) && taken == 0,
						x == eb && y == ssa.Value(pb) && (bo.Op == token.LEQ || bo.Op == token.LSS) && taken == 1,
						x == ssa.Value(pb) && y == eb && (bo.Op == token.GEQ || bo.Op == token.GTR) && taken == 1:
						guarded = true
					}
				}
				if c, isC := eb.(*ssa.Call); isC {
					if bi, isB := c.Call.Value.(*ssa.Builtin); isB && bi.Name() == "max" {
						guarded = true
					}
				}
				if !guarded && !fresh {
					var idx []int
					for _, b := range path {
						idx = append(idx, b.Index)
					}
					bad = fmt.Sprintf("on the iteration path %s a part joins the current group and the boundary is overwritten without being compared with its previous value", blocksStr(idx))
				}
			})
			switch {
			case bad != "":
				r.Violate(rule, construct, r.pos(pb), bad+": a part nested inside an earlier, wider part lowers the boundary, a later part that still overlaps the group is put into the next group, and the time-ordered scan emits rows out of order")
			case n == 0:
				r.Undecide(rule, construct, r.fpos(f), "no iteration path")
			default:
				r.Hold(rule, construct, r.pos(pb), fmt.Sprintf("%d iteration paths", n))
			}
		}
	}
	// the time window of an index-sorted batch: min and max are independent running extrema
	if f := r.fn("c09.sorted-batch-window", sibS.pkg, "(*idxResult).loadSortingData"); f != nil {
		why := "the window [minTimestamp,maxTimestamp] selects the parts and blocks scanned for the batch; a document that raises the maximum and is not offered to the minimum (the first one always is both) leaves the window short and the rows outside it are missing from the ordered result"
		r.accumulatorsIndependent("c09.sorted-batch-window", f, "maxTimestamp", "minTimestamp", why)
		r.accumulatorsIndependent("c09.sorted-batch-window", f, "minTimestamp", "maxTimestamp", why)
	}
}

func flowsFromCallSuffix(v ssa.Value, suffix string, depth int) bool {
	if depth > 14 || v == nil {
		return false
	}
	if c, ok := v.(*ssa.Call); ok && strings.HasSuffix(ssax.CalleeName(c.Common()), suffix) {
		return true
	}
	return anyOperand(v, func(o ssa.Value) bool { return flowsFromCallSuffix(o, suffix, depth+1) })
}

func flowsFromFieldNamed(v ssa.Value, field string, depth int) bool {
	if depth > 14 || v == nil {
		return false
	}
	if f := ssax.FieldOf(v); f != nil && f.Name() == field {
		return true
	}
	return anyOperand(v, func(o ssa.Value) bool { return flowsFromFieldNamed(o, field, depth+1) })
}
