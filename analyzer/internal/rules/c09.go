package rules

import (
	"fmt"
	"strings"

	"golang.org/x/tools/go/ssa"

	"bvcheck/internal/core"
	"bvcheck/internal/ssax"
)

func init() {
	register(&core.Property{
		ID:    "C09",
		Title: "Ordered results are globally sorted; limit/offset is a window of them",
		Decides: "every merge-heap / batch-sort comparator on the ordered-query paths induces exactly the order it must (key, direction flag, tie-breaks), over every weak ordering of its operands: iter/sort containerHeap, stream/sidx blockCursorHeap, sidx QueryResponseHeap, trace sidxStreamHeap, model.StreamResultHeap, the part/block merge heaps of measure, stream, trace and sidx, the batch sorters, SeriesList; " +
			"k-way mergers restore the heap (Fix/Pop) after advancing the top cursor before reading it again; in the distributed measure plan the limit handed to data nodes is offset+limit; the sidx cursor builder records a payload as seen only for elements inside the key range; the time window of an index-sorted stream batch offers every document to both its minimum and its maximum.",
		NotDecided: "that each input cursor is itself sorted, duplicates, early termination, exactly-once delivery of secondary-index entries, the composition of per-node windows into the global window.",
		Technique:  "finite-domain abstract interpretation of comparator syntax trees; CFG must-follow for heap discipline; SSA def-use of the pushed-down limit; guarded-call (seen only when in range); per-iteration must-test of sibling accumulators",
		Run:        runC09,
	})
}

var ij = [2]string{"$0", "$1"}
var ro = [2]string{"$r", "$0"}

func runC09(c *core.Ctx) {
	r := newR(c)
	rule := "c09.comparator"
	r.cmpLex(rule, "pkg/iter/sort", "containerHeap.Less", ij, "SortedField bytes, descending iff desc", kspec{Match: "SortedField", DescFlag: "desc"})
	r.cmpLex(rule, "banyand/internal/sidx", "QueryResponseHeap.Less", ij, "user key, ascending iff asc", kspec{Match: "response.Keys", AscFlag: "asc"})
	r.cmpLex(rule, "banyand/trace", "sidxStreamHeap.Less", ij, "current key, ascending iff asc", kspec{Match: "shards", AscFlag: "asc"})
	r.cmpLex(rule, "banyand/stream", "blockCursorHeap.Less", ij, "timestamp, ascending iff asc", kspec{Match: "timestamps", AscFlag: "asc"})
	r.cmpLex(rule, "pkg/query/model", "StreamResultHeap.Less", ij, "timestamp, ascending iff asc", kspec{Match: "Timestamps", AscFlag: "asc"})
	r.cmpLex(rule, "pkg/pb/v1", "SeriesList.Less", ij, "series ID ascending", kspec{Match: "ID"})
	for _, s := range []sib{sibM, sibS} {
		r.cmpLex(rule, s.pkg, "(*blockMetadata).less", ro, "lex(seriesID↑, min timestamp↑)", kspec{Match: "seriesID"}, kspec{Match: "timestamps.min"})
		r.cmpLex(rule, s.pkg, "(*partIterHeap).Less", ij, "lex(seriesID↑, min timestamp↑)", kspec{Match: "seriesID"}, kspec{Match: "timestamps.min"})
		r.cmpLex(rule, s.pkg, "(*partMergeIterHeap).Less", ij, "lex(seriesID↑, min timestamp↑)", kspec{Match: "seriesID"}, kspec{Match: "timestamps.min"})
	}
	r.cmpLex(rule, sibT.pkg, "(*blockMetadata).less", ro, "trace id ascending", kspec{Match: "traceID"})
	r.cmpLex(rule, sibT.pkg, "(*partMergeIterHeap).Less", ij, "trace id ascending", kspec{Match: "traceID"})
	r.cmpLex(rule, sibS.pkg, "(*elements).Less", ij, "lex(seriesID↑, timestamp↑)", kspec{Match: "seriesIDs"}, kspec{Match: "timestamps"})
	r.cmpLex(rule, sibX.pkg, "(*elements).Less", ij, "lex(seriesID↑, user key↑)", kspec{Match: "seriesIDs"}, kspec{Match: "userKeys"})
	r.cmpLex(rule, sibT.pkg, "(*traces).Less", ij, "trace id ascending", kspec{Match: "traceIDs"})
	r.cmpLex(rule, sibX.pkg, "(*blockMetadata).less", ro, "lex(seriesID↑, min key↑)", kspec{Match: "seriesID"}, kspec{Match: "minKey"})
	r.cmpLex(rule, sibX.pkg, "(*partMergeIterHeap).Less", ij, "lex(seriesID↑, min key↑)", kspec{Match: "seriesID"}, kspec{Match: "minKey"})
	r.cmpLex(rule, sibX.pkg, "(*blockMetadata).lessByKey", ro, "lex(min key↑, max key↑, seriesID↑, data offset↑)", kspec{Match: "minKey"}, kspec{Match: "maxKey"}, kspec{Match: "seriesID"}, kspec{Match: "dataBlock.offset"})
	r.Floor(rule, 20)
	if r.Tier == "thorough" {
		// discovery: comparators in the anchored packages that have no spec here (a warning for the
		// maintainer of the rule tables, never a violation)
		covered := map[string]bool{}
		for _, o := range r.Obs {
			if o.Rule == rule {
				covered[strings.SplitN(o.Construct, " ≡", 2)[0]] = true
			}
		}
		n := 0
		for _, f := range r.P.ModuleFuncs("banyand/measure", "banyand/stream", "banyand/trace", "banyand/internal/sidx", "pkg/iter/sort", "pkg/query/model", "pkg/query/logical", "banyand/dquery", "pkg/index/inverted") {
			nm := ssax.FuncName(f)
			if !(strings.HasSuffix(nm, ").Less") || strings.HasSuffix(nm, ").less")) || covered[nm] || strings.Contains(r.fpos(f), "benchmark_") || strings.Contains(r.fpos(f), "migration_") {
				continue
			}
			n++
			r.Note("unlisted-candidate comparator (no spec; not checked): %s at %s", nm, r.fpos(f))
		}
		r.Stat("unlisted_comparators", n)
	}

	// the window pushed to the sources is offset+limit, never limit alone
	rule = "c09.pushdown-window"
	n := 0
	for _, f := range r.P.ModuleFuncs("pkg/query/logical/measure", "pkg/query/logical/stream", "pkg/query/logical/trace") {
		for _, in := range ssax.Find(f, ssax.CallTo("pkg/query/logical.NewPushDownMaxSize")) {
			n++
			arg := in.(*ssa.Call).Call.Args[0]
			off := flowsFromCallSuffix(arg, ").GetOffset", 0)
			lim := flowsFromCallSuffix(arg, ").GetLimit", 0)
			r.Check(off && lim, rule, fmt.Sprintf("%s: PushDownMaxSize#%d = limit+offset", ssax.FuncName(f), n), r.pos(in), "the per-source maximum derives from both the limit and the offset of the request: each source must return enough rows for the global window")
		}
		if strings.HasSuffix(strings.Split(r.fpos(f), ":")[0], "_plan_distributed.go") {
			for _, in := range ssax.Find(f, func(in ssa.Instruction) bool {
				st, ok := in.(*ssa.Store)
				return ok && strings.HasSuffix(ssax.FieldQName(st.Addr), "QueryRequest.Limit")
			}) {
				n++
				v := in.(*ssa.Store).Val
				pushed := false // the value pushed down by PushDownMaxSize (itself checked to be limit+offset)
				for _, fld := range []string{"maxDataPointsSize", "maxElementSize", "maxTraceSize"} {
					pushed = pushed || flowsFromFieldNamed(v, fld, 0)
				}
				r.Check(pushed || flowsFromFieldNamed(v, "Offset", 0), rule, fmt.Sprintf("%s: node request Limit#%d includes the offset", ssax.FuncName(f), n), r.pos(in), "the limit sent to data nodes is limit+offset")
			}
		}
	}
	r.Floor(rule, 6)

	// the sidx cursor builder records a payload as seen only for elements inside the requested key range
	if f := r.fn("c09.seen-only-in-range", sibX.pkg, "(*blockCursorBuilder).appendElement"); f != nil {
		r.onlyWhenCall("c09.seen-only-in-range", f, call("(*"+sibX.pkg+".blockCursorBuilder).markSeen"), "(*"+sibX.pkg+".blockCursorBuilder).keyInRange", true, nil,
			"an element outside the key range must not be recorded as seen: a later in-range element carrying the same payload would be dropped as its duplicate, so a matching entry is not returned")
	}
	// the time window of an index-sorted batch: min and max are independent running extrema
	if f := r.fn("c09.sorted-batch-window", sibS.pkg, "(*idxResult).loadSortingData"); f != nil {
		why := "the window [minTimestamp,maxTimestamp] selects the parts and blocks scanned for the batch; a document that raises the maximum and is not offered to the minimum (the first one always is both) leaves the window short and the rows outside it are missing from the ordered result"
		r.accumulatorsIndependent("c09.sorted-batch-window", f, "maxTimestamp", "minTimestamp", why)
		r.accumulatorsIndependent("c09.sorted-batch-window", f, "minTimestamp", "maxTimestamp", why)
	}
}

func flowsFromCallSuffix(v ssa.Value, suffix string, depth int) bool {
	if depth > 14 || v == nil {
		return false
	}
	if c, ok := v.(*ssa.Call); ok && strings.HasSuffix(ssax.CalleeName(c.Common()), suffix) {
		return true
	}
	return anyOperand(v, func(o ssa.Value) bool { return flowsFromCallSuffix(o, suffix, depth+1) })
}

func flowsFromFieldNamed(v ssa.Value, field string, depth int) bool {
	if depth > 14 || v == nil {
		return false
	}
	if f := ssax.FieldOf(v); f != nil && f.Name() == field {
		return true
	}
	return anyOperand(v, func(o ssa.Value) bool { return flowsFromFieldNamed(o, field, depth+1) })
}
