package rules

import (
	"fmt"
	"go/ast"
	"go/token"
	"go/types"
	"strings"

	"golang.org/x/tools/go/ssa"

	"bvcheck/internal/core"
	"bvcheck/internal/lockset"
	"bvcheck/internal/pair"
	"bvcheck/internal/ssax"
)

func init() {
	register(&core.Property{
		ID:    "C19",
		Title: "A file snapshot is a consistent, openable point-in-time copy",
		Decides: "in TakeFileSnapshot (measure, stream, trace, sidx) the table snapshot is pinned before the link loop, stays pinned until the function returns (no use after release) and the manifest is written from that same pinned value after the links; the manifest lists only parts the link loop links (same mem-part filter); a failed snapshot removes its destination; " +
			"the storage segment snapshot path never reaches the reopen/acquire functions, pins an open segment under the segment mutex only when it is open and releases it, and holds the mutex across the hard-link of a closed segment; the closed-segment filter excludes exactly the transient names; CreateHardLink skips a whole directory only for directories; trace reads its secondary-index map under the table lock.; the backup tool prunes the remote copy (deletes files of the previous backup) and reports success only when the directory walk and every upload returned no error; a trace file snapshot takes its core view and its secondary-index views under one hold of the publication lock; within a segment the shards are copied before the series index",
		NotDecided: "that the copy equals one state that existed (core and secondary-index views are pinned at different instants), behaviour under concurrent retention, durability of the copy after power loss.",
		Technique:  "acquire/release pairing with use-after-release, CFG ordering, call-graph unreachability, must-lockset, filter-agreement on guarded appends",
		Run:        runC19,
	})
}

func runC19(c *core.Ctx) {
	r := newR(c)
	// 1. pinned while linked; manifest from the pinned value; cleanup on error
	for _, s := range sibsAll {
		rule := "c19.pinned-while-linked"
		recv := "(*tsTable)"
		if s.tag == "X" {
			recv = "(*sidx)"
		}
		f := r.fn(rule, s.pkg, recv+".TakeFileSnapshot")
		if f == nil {
			continue
		}
		acq := ssax.Find(f, ssax.CallTo("(*"+s.pkg+"."+strings.Trim(recv, "(*)")+").currentSnapshot"))
		construct := ssax.FuncName(f) + ": snapshot pinned for the whole copy"
		if len(acq) != 1 {
			r.Violate(rule, construct, r.fpos(f), fmt.Sprintf("expected exactly one currentSnapshot() pin, found %d", len(acq)))
			continue
		}
		res := pair.AnalyzeCall(snapshotKind(s.pkg), acq[0], -1, -1)
		switch {
		case res.LeakExit != nil:
			r.Violate(rule, construct, r.pos(res.LeakExit), "the pin leaks on the exit at "+r.pos(res.LeakExit))
		case res.UseAfter[0] != nil:
			r.Violate(rule, construct, r.pos(res.UseAfter[1]), fmt.Sprintf("the pin is dropped at %s but the snapshot is still used at %s (parts may be released by a concurrent introduction: the manifest would not match the links)", r.pos(res.UseAfter[0]), r.pos(res.UseAfter[1])))
		default:
			r.Hold(rule, construct, r.pos(acq[0]), "released only by defer / after the last use")
		}
		link := call("iface:(pkg/fs.FileSystem).CreateHardLink")
		r.neverBefore(rule, f, NM{"currentSnapshot", func(in ssa.Instruction) bool { return in == acq[0] }}, link, nil)
		// links are made from the pinned snapshot's parts: the source path flows from the pinned value
		for i, l := range ssax.Find(f, link.M) {
			ok := flowsFromValue(l.(*ssa.Call).Call.Args[0], acq[0].(ssa.Value), 0)
			r.Check(ok, rule, fmt.Sprintf("%s: link#%d source comes from the pinned snapshot", ssax.FuncName(f), i+1), r.pos(l), "the hard-linked path derives from the parts of the snapshot pinned at entry")
		}
		if s.tag != "X" {
			cm := ssax.Find(f, ssax.CallTo("(*"+s.pkg+".tsTable).createMetadata"))
			construct := ssax.FuncName(f) + ": manifest written from the pinned snapshot, after the links"
			if len(cm) != 1 {
				r.Violate(rule, construct, r.fpos(f), "expected exactly one createMetadata call")
			} else {
				args := cm[0].(*ssa.Call).Call.Args
				r.Check(args[len(args)-1] == acq[0].(ssa.Value), rule, construct, r.pos(cm[0]), "createMetadata receives the very snapshot value pinned at entry (not a fresh currentSnapshot())")
				r.neverAfter(rule, f, NM{"createMetadata", func(in ssa.Instruction) bool { return in == cm[0] }}, link, nil)
			}
			// failed snapshot removed
			r.deferredCleanupOnError("c19.cleanup-on-error", f)
			// 3. manifest filter agreement
			rule2 := "c19.manifest-filter"
			construct2 := s.pkg + ": manifest lists only linked (file-backed) parts"
			linkGuarded := true
			for _, l := range ssax.Find(f, link.M) {
				if _, _, found := (ssax.Search{Target: func(x ssa.Instruction) bool { return x == l }, Edge: keepFieldNil("mp", false)}).From(f, nil); found {
					linkGuarded = false
				}
			}
			if cmf := r.fn(rule2, s.pkg, "(*tsTable).createMetadata"); cmf != nil {
				apps := ssax.Find(cmf, func(in ssa.Instruction) bool { return len(ssax.AppendedValues(in)) > 0 })
				listed := false
				for _, a := range apps {
					if _, _, found := (ssax.Search{Target: func(x ssa.Instruction) bool { return x == a }, Edge: keepFieldNil("mp", false)}).From(cmf, nil); found {
						listed = true
					}
				}
				switch {
				case len(apps) == 0:
					r.Violate(rule2, construct2, r.fpos(cmf), "no part-name append found in createMetadata")
				case linkGuarded && listed:
					r.Violate(rule2, construct2, r.pos(apps[0]), "TakeFileSnapshot links only parts with mp == nil, but createMetadata also lists memory parts (mp != nil): the copy's manifest names parts that are not in the copy")
				default:
					r.Hold(rule2, construct2, r.fpos(cmf), "link loop and manifest loop apply the same mem-part filter")
				}
			}
		}
	}
	r.Floor("c19.pinned-while-linked", 4*3+3*2)
	r.Floor("c19.manifest-filter", 3)
	if f := r.fn("c19.cleanup-on-error", stPkg, "(*database).TakeFileSnapshot"); f != nil {
		r.deferredCleanupOnError("c19.cleanup-on-error", f)
	}
	r.Floor("c19.cleanup-on-error", 4)

	// 2. never reopens
	{
		rule := "c19.never-reopens"
		forbidden := map[string]bool{}
		for _, n := range []string{"incRef", "acquire", "initialize"} {
			forbidden["(*"+stPkg+".segment[T, O])."+n] = true
		}
		forbidden["(*"+stPkg+".segmentController[T, O]).segments"] = true
		forbidden["(*"+stPkg+".segmentController[T, O]).selectSegments"] = true
		for _, root := range []string{"(*database).TakeFileSnapshot", "(*segment).snapshotInto", "(*segment).snapshotClosed", "(*segment).snapshotOpen"} {
			f := r.fn(rule, stPkg, root)
			if f == nil {
				continue
			}
			path := r.reach(f, func(g *ssa.Function) bool { return forbidden[ssax.FuncName(g)] }, func(g *ssa.Function) bool {
				return g.Pkg != nil && ssax.Short(g.Pkg.Pkg.Path()) == stPkg
			})
			if path != nil {
				r.Violate(rule, ssax.FuncName(f)+" ⇏ reopen", r.fpos(f), "the snapshot path can reach a reopening function: "+strings.Join(path, " → "))
			} else {
				r.Hold(rule, ssax.FuncName(f)+" ⇏ reopen", r.fpos(f), "no static call path inside the storage package reaches incRef/acquire/initialize/segments/selectSegments")
			}
		}
		r.Floor(rule, 4)
	}
	if f := r.fn("c19.segment-pin", stPkg, "(*segment).snapshotInto"); f != nil {
		rule := "c19.segment-pin"
		bump := NM{"refCount+1", func(in ssa.Instruction) bool {
			cl, ok := in.(*ssa.Call)
			if !ok || ssax.CalleeName(cl.Common()) != "sync/atomic.AddInt32" || !isRefCountAddr(cl.Call.Args[0]) {
				return false
			}
			k, ok := cl.Call.Args[1].(*ssa.Const)
			return ok && k.Int64() == 1
		}}
		open := call("(*" + stPkg + ".segment[T, O]).snapshotOpen")
		closed := call("(*" + stPkg + ".segment[T, O]).snapshotClosed")
		unlock := call("(*sync.RWMutex).Unlock")
		// open branch: unconditional pin under the lock, before unlocking; released by defer
		r.neverBefore(rule, f, bump, open, nil)
		for _, b := range ssax.Find(f, bump.M) {
			r.Check(locksOf(f).At(b)["recv.mu"] == lockset.W, rule, ssax.FuncName(f)+": pin taken under s.mu", r.pos(b), "the count is bumped while the segment mutex is held, so closeIfIdle/performDelete cannot run in between")
		}
		dec := NM{"defer DecRef", func(in ssa.Instruction) bool {
			d, ok := in.(*ssa.Defer)
			return ok && strings.HasSuffix(ssax.CalleeName(d.Common()), ").DecRef")
		}}
		r.neverBefore(rule, f, dec, open, nil)
		// snapshotOpen is only entered with a non-nil index captured under the lock
		if tgt, _, found := (ssax.Search{Target: open.M, Edge: func(from *ssa.BasicBlock, succ int) bool {
			iff, ok := from.Instrs[len(from.Instrs)-1].(*ssa.If)
			if !ok {
				return true
			}
			if bo, ok := iff.Cond.(*ssa.BinOp); ok && (ssax.IsNilConst(bo.Y) || ssax.IsNilConst(bo.X)) {
				v := bo.X
				if ssax.IsNilConst(bo.X) {
					v = bo.Y
				}
				if ssax.Path(v) == "recv.index" {
					nilSucc := 1
					if bo.Op == token.EQL {
						nilSucc = 0
					}
					return succ == nilSucc // follow only "index is nil"
				}
			}
			return true
		}}).From(f, nil); found {
			r.Violate(rule, ssax.FuncName(f)+": open path only when index != nil", r.pos(tgt), "snapshotOpen reachable with a nil index")
		} else {
			r.Hold(rule, ssax.FuncName(f)+": open path only when index != nil", r.fpos(f), "")
		}
		// closed branch: the mutex is still held while hard-linking
		for _, cl := range ssax.Find(f, closed.M) {
			r.Check(locksOf(f).At(cl)["recv.mu"] == lockset.W, rule, ssax.FuncName(f)+": closed segment linked under s.mu", r.pos(cl), "a concurrent reopen cannot write into the directory mid-copy")
		}
		_ = unlock
		// flagged segments are skipped before anything is written
		r.Floor(rule, 5)
	}

	// 5. closed-snapshot filter and CreateHardLink skip semantics
	r.closedFilterRule()
	if f := r.fn("c19.hardlink-skipdir", "pkg/fs", "(*localFileSystem).CreateHardLink"); f != nil {
		rule := "c19.hardlink-skipdir"
		n := 0
		for _, g := range append([]*ssa.Function{f}, f.AnonFuncs...) {
			for _, ret := range ssax.Find(g, ssax.IsReturn) {
				for _, rv := range ret.(*ssa.Return).Results {
					ld, ok := ssax.Unspill(rv, ret).(*ssa.UnOp)
					if !ok {
						continue
					}
					gl, ok := ld.X.(*ssa.Global)
					if !ok || gl.Name() != "SkipDir" {
						continue
					}
					n++
					// reachable only when info.IsDir() is true
					isDir := "iface:(io/fs.FileInfo).IsDir(arg1)"
					tgt, _, found := (ssax.Search{Target: func(x ssa.Instruction) bool { return x == ret }, Edge: ssax.PruneCond(isDir, true)}).From(g, nil)
					if !ssax.HasCond(g, isDir) {
						r.Violate(rule, ssax.FuncName(g)+": SkipDir only for directories", r.pos(ret), "no info.IsDir() test found; conditions: "+strings.Join(ssax.Conds(g), "; "))
					} else if found {
						r.Violate(rule, ssax.FuncName(g)+": SkipDir only for directories", r.pos(tgt), "filepath.SkipDir returned for a non-directory entry: Walk would skip the rest of the containing directory (files after a filtered file are silently not linked)")
					} else {
						r.Hold(rule, ssax.FuncName(g)+": SkipDir only for directories", r.pos(ret), "guarded by info.IsDir()")
					}
				}
			}
		}
		if n == 0 {
			r.Hold(rule, ssax.FuncName(f)+": SkipDir never returned", r.fpos(f), "no SkipDir return")
		}
		// the directory walk ends with a sync of the destination
		for _, w := range ssax.Find(f, ssax.CallTo("path/filepath.Walk")) {
			tgt, _, found := (ssax.Search{Target: ssax.SuccessExit(f), Avoid: ssax.CallTo("(*pkg/fs.localFileSystem).SyncPath")}).From(f, w)
			if found {
				r.Violate(rule, ssax.FuncName(f)+": directory copy synced before success", r.pos(tgt), "success return after the directory walk without SyncPath(dest)")
			} else {
				r.Hold(rule, ssax.FuncName(f)+": directory copy synced before success", r.pos(w), "")
			}
		}
	}

	// 4. trace: the secondary-index map is read under the table lock
	n := r.guardedField("c19.sidxmap-under-lock", sibT.pkg+".tsTable.sidxMap", "RWMutex", []string{sibT.pkg}, map[string]string{
		"(*" + sibT.pkg + ".tsTable).loadSidxMap": "runs from loadSnapshot/initTSTable before the table is published",
	})
	if n == 0 {
		r.Undecide("c19.sidxmap-under-lock", sibT.pkg+".tsTable.sidxMap", "", "no access found")
	}
	r.Floor("c19.sidxmap-under-lock", 8)
}

// deferredCleanupOnError: f has a deferred closure that removes the destination (first string parameter)
// whenever the named error result is non-nil, registered before the first effectful call.
func (r *R) deferredCleanupOnError(rule string, f *ssa.Function) {
	construct := ssax.FuncName(f) + ": failed snapshot removes its destination"
	var cleanup *ssa.Function
	for _, in := range ssax.Find(f, func(in ssa.Instruction) bool { return isDefer(in) }) {
		if mc, ok := in.(*ssa.Defer).Call.Value.(*ssa.MakeClosure); ok {
			fn := mc.Fn.(*ssa.Function)
			if len(ssax.Find(fn, ssax.CallTo(fsMustRMAll))) > 0 {
				cleanup = fn
			}
		}
	}
	if cleanup == nil {
		r.Violate(rule, construct, r.fpos(f), "no deferred closure calling MustRMAll(dst): a failed snapshot would leave a partial copy")
		return
	}
	// in the closure: on err != nil every path passes MustRMAll
	cond := ""
	for _, cs := range ssax.Conds(cleanup) {
		if strings.HasPrefix(cs, "free:") && strings.HasSuffix(cs, "!= nil") {
			cond = cs
		}
	}
	if cond == "" {
		r.Violate(rule, construct, r.fpos(cleanup), "cleanup closure does not test the error result")
		return
	}
	r.mustSeq(rule, cleanup, exitAny, ssax.PruneCond(cond, false), call(fsMustRMAll))
}

// flowsFromValue: v is computed from root through loads, fields, indexes, calls and phis.
func flowsFromValue(v, root ssa.Value, depth int) bool {
	if v == root {
		return true
	}
	if depth > 14 || v == nil {
		return false
	}
	if al, ok := v.(*ssa.Alloc); ok {
		for _, ref := range *al.Referrers() {
			switch x := ref.(type) {
			case *ssa.Store:
				if x.Addr == al && flowsFromValue(x.Val, root, depth+1) {
					return true
				}
			case *ssa.IndexAddr:
				for _, r2 := range *x.Referrers() {
					if st, ok := r2.(*ssa.Store); ok && st.Addr == x && flowsFromValue(st.Val, root, depth+1) {
						return true
					}
				}
			}
		}
		return false
	}
	in, ok := v.(ssa.Instruction)
	if !ok {
		return false
	}
	var ops []*ssa.Value
	for _, op := range in.Operands(ops) {
		if op != nil && *op != nil && flowsFromValue(*op, root, depth+1) {
			return true
		}
	}
	return false
}

// reach is staticReach in the quick tier; in the thorough tier it walks the whole-program VTA call graph, so
// interface invocations, method values and closures called through variables are followed too.
func (r *R) reach(f *ssa.Function, bad func(*ssa.Function) bool, within func(*ssa.Function) bool) []string {
	if r.Tier != "thorough" {
		return staticReach(f, bad, within)
	}
	cg := r.P.CallGraph()
	r.Stat("vta_nodes", len(cg.Nodes))
	type item struct {
		fn   *ssa.Function
		path []string
	}
	seen := map[*ssa.Function]bool{f: true}
	queue := []item{{f, []string{ssax.FuncName(f)}}}
	edges := 0
	for len(queue) > 0 {
		it := queue[0]
		queue = queue[1:]
		node := cg.Nodes[it.fn]
		var next []*ssa.Function
		if node != nil {
			for _, e := range node.Out {
				if e.Callee != nil && e.Callee.Func != nil {
					next = append(next, e.Callee.Func)
					edges++
				}
			}
		}
		// closures created here are reachable even if only stored
		for _, b := range it.fn.Blocks {
			for _, in := range b.Instrs {
				if mc, ok := in.(*ssa.MakeClosure); ok {
					next = append(next, mc.Fn.(*ssa.Function))
				}
			}
		}
		for _, g := range next {
			if o := g.Origin(); o != nil {
				g = o
			}
			if seen[g] {
				continue
			}
			seen[g] = true
			p := append(append([]string(nil), it.path...), ssax.FuncName(g))
			if bad(g) {
				r.Stat("vta_edges_followed", edges)
				return p
			}
			if within(g) || g.Parent() != nil {
				queue = append(queue, item{g, p})
			}
		}
	}
	r.Stat("vta_edges_followed", edges)
	return nil
}

// staticReach searches the static call graph (calls, defers, go, closures created) from f for a function
// satisfying bad, descending only into functions accepted by within. Returns the path of names.
func staticReach(f *ssa.Function, bad func(*ssa.Function) bool, within func(*ssa.Function) bool) []string {
	type item struct {
		fn   *ssa.Function
		path []string
	}
	seen := map[*ssa.Function]bool{f: true}
	queue := []item{{f, []string{ssax.FuncName(f)}}}
	for len(queue) > 0 {
		it := queue[0]
		queue = queue[1:]
		var next []*ssa.Function
		for _, b := range it.fn.Blocks {
			for _, in := range b.Instrs {
				if cc := ssax.Common(in); cc != nil {
					if g := cc.StaticCallee(); g != nil {
						if o := g.Origin(); o != nil {
							g = o
						}
						next = append(next, g)
					}
				}
				if mc, ok := in.(*ssa.MakeClosure); ok {
					next = append(next, mc.Fn.(*ssa.Function))
				}
			}
		}
		for _, g := range next {
			if seen[g] {
				continue
			}
			seen[g] = true
			p := append(append([]string(nil), it.path...), ssax.FuncName(g))
			if bad(g) {
				return p
			}
			if within(g) || g.Parent() != nil {
				queue = append(queue, item{g, p})
			}
		}
	}
	return nil
}

// closedFilterRule: includeInClosedSnapshot returns false exactly for the transient names.
func (r *R) closedFilterRule() {
	rule := "c19.closed-filter"
	f := r.fn(rule, stPkg, "includeInClosedSnapshot")
	if f == nil {
		return
	}
	decl, pk := r.P.FuncDecl(f)
	if decl == nil || pk == nil {
		r.Undecide(rule, "includeInClosedSnapshot", r.fpos(f), "no syntax")
		return
	}
	want := map[string]bool{
		"pkg/index/inverted.LockFilename":               false,
		stPkg + ".FailedPartsDirName":                   false,
		"pkg/index/inverted.ExternalSegmentTempDirName": false,
	}
	tmp := false
	ast.Inspect(decl, func(n ast.Node) bool {
		switch x := n.(type) {
		case *ast.CaseClause:
			rejects := false
			for _, st := range x.Body {
				if ret, ok := st.(*ast.ReturnStmt); ok && len(ret.Results) == 1 {
					if id, ok := ret.Results[0].(*ast.Ident); ok && id.Name == "false" {
						rejects = true
					}
				}
			}
			if rejects {
				for _, e := range x.List {
					ast.Inspect(e, func(m ast.Node) bool {
						var id *ast.Ident
						switch y := m.(type) {
						case *ast.SelectorExpr:
							id = y.Sel
						case *ast.Ident:
							id = y
						}
						if id != nil {
							if c, ok := pk.TypesInfo.Uses[id].(*types.Const); ok && c.Pkg() != nil {
								q := ssax.Short(c.Pkg().Path()) + "." + c.Name()
								if _, known := want[q]; known {
									want[q] = true
								}
							}
						}
						return true
					})
				}
			}
		case *ast.BinaryExpr:
			if lit, ok := x.Y.(*ast.BasicLit); ok && lit.Value == "\".tmp\"" && x.Op == token.NEQ {
				tmp = true
			}
		}
		return true
	})
	for _, q := range sortedKeys(want) {
		r.Check(want[q], rule, "includeInClosedSnapshot rejects "+q, r.fpos(f), "the transient artifact is excluded from a closed-segment snapshot")
	}
	r.Check(tmp, rule, "includeInClosedSnapshot rejects *.tmp", r.fpos(f), "partial atomic-write files are excluded")
	// and it is the filter actually passed by snapshotClosed
	if sc := r.fn(rule, stPkg, "(*segment).snapshotClosed"); sc != nil {
		ok := false
		for _, l := range ssax.Find(sc, ssax.CallTo("iface:(pkg/fs.FileSystem).CreateHardLink")) {
			args := l.(*ssa.Call).Call.Args
			if fn, isFn := args[len(args)-1].(*ssa.Function); isFn && ssax.FuncName(fn) == ssax.FuncName(f) {
				ok = true
			}
		}
		r.Check(ok, rule, "snapshotClosed passes includeInClosedSnapshot", r.fpos(sc), "the closed-segment hard-link uses the transient-name filter")
	}

	// trace: the core snapshot and the secondary-index snapshots of one file snapshot are taken under ONE hold of
	// the publication lock (a merge introduced in between would make the copy's manifest and sidx directory disagree)
	if f := r.fn("c19.core-and-sidx-one-publication", sibT.pkg, "(*tsTable).TakeFileSnapshot"); f != nil {
		rule := "c19.core-and-sidx-one-publication"
		held := func(in ssa.Instruction) bool {
			for k, m := range locksOf(in.Parent()).At(in) {
				if strings.HasSuffix(k, "snapshotPublicationMu") && m >= 1 {
					return true
				}
			}
			return false
		}
		n := 0
		for _, in := range ssax.Find(f, func(in ssa.Instruction) bool {
			cc := ssax.Common(in)
			if cc == nil {
				return false
			}
			nm := ssax.CalleeName(cc)
			return nm == "(*"+sibT.pkg+".tsTable).currentSnapshot" || strings.HasSuffix(nm, "sidx.SIDX).TakeFileSnapshot") || strings.HasSuffix(nm, ".getAllSidx")
		}) {
			n++
			r.Check(held(in), rule, fmt.Sprintf("%s: view #%d (%s) is taken under the publication lock", ssax.FuncName(f), n, ssax.CalleeName(ssax.Common(in))), r.pos(in),
				"the core snapshot and the secondary-index snapshots are taken at different instants with no lock that excludes the introducer: a merge committed in between gives a copy whose manifest lists the merge inputs while its sidx holds the merged part; on open every sidx part not in the manifest is deleted and the restored shard has an empty secondary index")
		}
		r.Floor(rule, 2)
	}
	// storage: within one segment the shards are copied before the series index (an index copy newer than the shard
	// copies knows every series of every copied part; the other order hides rows of new series)
	if f := r.fn("c19.shards-before-series-index", stPkg, "(*segment).snapshotOpen"); f != nil {
		r.neverAfter("c19.shards-before-series-index", f,
			NM{"series index copy", func(in ssa.Instruction) bool {
				cc := ssax.Common(in)
				if cc == nil {
					return false
				}
				nm := ssax.CalleeName(cc)
				return strings.HasSuffix(nm, ".TakeFileSnapshot") && !strings.Contains(nm, "TSTable")
			}}, call("iface:("+stPkg+".TSTable).TakeFileSnapshot"), nil)
	}

	// backup: the remote copy is pruned (files of the previous backup deleted) and success reported only when
	// the walk and every upload succeeded
	if f := r.fn("c19.backup-prunes-only-when-complete", "banyand/backup", "backupSnapshot"); f != nil {
		rule := "c19.backup-prunes-only-when-complete"
		prune := func(in ssa.Instruction) bool {
			cc := ssax.Common(in)
			return cc != nil && strings.HasSuffix(ssax.CalleeName(cc), "remote.FS).Delete")
		}
		okExit := ssax.SuccessExit(f)
		target := func(in ssa.Instruction) bool { return prune(in) || okExit(in) }
		n := 0
		for _, src := range ssax.Find(f, func(in ssa.Instruction) bool {
			c, ok := in.(*ssa.Call)
			if !ok {
				return false
			}
			nm := ssax.CalleeName(c.Common())
			return nm == "(*golang.org/x/sync/errgroup.Group).Wait" || nm == "path/filepath.Walk" || nm == "path/filepath.WalkDir"
		}) {
			v := ssa.Value(src.(*ssa.Call))
			n++
			// world: this error is non-nil
			edge := func(from *ssa.BasicBlock, succ int) bool {
				iff, ok := from.Instrs[len(from.Instrs)-1].(*ssa.If)
				if !ok {
					return true
				}
				bo, ok := iff.Cond.(*ssa.BinOp)
				if !ok || bo.Op != token.EQL && bo.Op != token.NEQ {
					return true
				}
				if !(bo.X == v && ssax.IsNilConst(bo.Y) || bo.Y == v && ssax.IsNilConst(bo.X)) {
					return true
				}
				if bo.Op == token.NEQ {
					return succ == 0
				}
				return succ == 1
			}
			construct := fmt.Sprintf("%s: no pruning / success when %s failed", ssax.FuncName(f), ssax.CalleeName(src.(*ssa.Call).Common()))
			if tgt, path, found := (ssax.Search{Target: target, Edge: edge}).From(f, src); found {
				r.Violate(rule, construct, r.pos(tgt), fmt.Sprintf("with a non-nil error from the call at %s control still reaches %s (blocks %s): an interrupted backup deletes the files of the previous complete backup and/or reports success, leaving a remote copy whose manifest names parts that were never uploaded", r.pos(src), r.pos(tgt), blocksStr(path)))
			} else {
				r.Hold(rule, construct, r.pos(src), "")
			}
		}
		r.Floor(rule, 2)
		_ = n
	}
}
