package rules

import (
	"fmt"
	"go/token"
	"sort"
	"strings"
	"sync"

	"golang.org/x/tools/go/ssa"

	"bvcheck/internal/core"
	"bvcheck/internal/lockset"
	"bvcheck/internal/pair"
	"bvcheck/internal/ssax"
)

const stPkg = "banyand/internal/storage"

func init() {
	register(&core.Property{
		ID:    "C14",
		Title: "A segment is never closed or deleted while in use, and never leaks",
		Decides: "the lock-free fast path of the segment reference count can only bump a positive count (never resurrect a dormant segment); every other change of the count holds the segment mutex; " +
			"resources are closed / the directory removed only under that mutex and only on the branch where the count read under the lock is zero; acquire refuses a segment flagged for deletion before reopening it; " +
			"the segment's index pointer is accessed under the mutex (or through the hold-a-reference accessors); every segment reference obtained by a caller (SelectSegments, CreateSegmentIfNotExist, segments, incRef) is released or handed to an owner on every exit, and loops that pin several segments unwind on a mid-loop failure; DecRef runs the deferred delete only on the 1→0 transition of a flagged segment; closeResourcesLocked resets every resource field it closes (index pointer, shard list) before returning; a failed (re)open clears segment.index — the \"resources open\" bit — on every failing exit.; the result of the unpinned scan segments(ctx, false) is never released element by element",
		NotDecided: "that these invariants compose to safety under every interleaving (a model-checking claim), idle-timer behaviour, liveness of deferred deletes.",
		Technique:  "SSA value-world pruning on atomic loads/CAS operands; must-lockset; acquire/release pairing with collection ownership; must-clear on every failing exit (open bit)",
		Run:        runC14,
	})
}

func isRefCountAddr(v ssa.Value) bool {
	return strings.HasPrefix(ssax.FieldQName(v), stPkg+".segment") && strings.HasSuffix(ssax.FieldQName(v), ".refCount")
}

func segmentKind() *pair.Kind {
	k := &pair.Kind{
		Name: "segment reference",
		Release: func(n string) bool {
			return strings.HasSuffix(n, ").DecRef") && strings.Contains(n, stPkg+".")
		},
	}
	return k
}

// consumesSummary computes "callee releases (or hands on) its i-th argument on every exit" for static
// module callees by analysing the parameter as an owned root from entry. Bound: one level (a callee's own
// hand-overs use the base kind).
func (r *R) consumesSummary(base *pair.Kind) func(site *ssa.CallCommon, arg int) bool {
	var mu sync.Mutex
	memo := map[string]bool{}
	return func(cc *ssa.CallCommon, arg int) bool {
		callee := cc.StaticCallee()
		if callee == nil || len(callee.Blocks) == 0 || arg >= len(callee.Params) || !strings.Contains(callee.String(), ssax.Module) {
			return false
		}
		key := fmt.Sprintf("%p/%d", callee, arg)
		mu.Lock()
		v, ok := memo[key]
		mu.Unlock()
		if ok {
			return v
		}
		res := pair.Analyze(base, callee, nil, []ssa.Value{callee.Params[arg]}, nil)
		consumes := res.LeakExit == nil && len(res.Events) > 0
		mu.Lock()
		memo[key] = consumes
		mu.Unlock()
		return consumes
	}
}

func runC14(c *core.Ctx) {
	r := newR(c)
	funcs := r.P.ModuleFuncs(stPkg)
	r.Stat("storage_functions", len(funcs))

	// 0. index != nil is the "resources open" bit: a failed (re)open must not leave it set
	if f := r.fn("c14.open-bit-reset-on-failure", stPkg, "(*segment).initialize"); f != nil {
		rule := "c14.open-bit-reset-on-failure"
		q := stPkg + ".segment.index"
		isNilStore := ssax.StoreTo(q, func(v ssa.Value) bool { return ssax.IsNilConst(v) })
		ok2 := ssax.SuccessExit(f)
		failExit := func(in ssa.Instruction) bool { return ssax.IsReturn(in) && !ok2(in) }
		n := 0
		for _, in := range ssax.Find(f, ssax.StoreTo(q, func(v ssa.Value) bool { return !ssax.IsNilConst(v) })) {
			n++
			construct := fmt.Sprintf("%s: index#%d installed ⇒ cleared again on every failing exit", ssax.FuncName(f), n)
			if tgt, path, found := (ssax.Search{Target: failExit, Avoid: isNilStore}).From(f, in); found {
				r.Violate(rule, construct, r.pos(in), fmt.Sprintf("the series index installed at %s is still in segment.index on the failing exit at %s (blocks %s): the segment keeps refCount 0 but looks open, so the next acquire skips initialize and hands out a closed index / missing shards", r.pos(in), r.pos(tgt), blocksStr(path)))
			} else {
				r.Hold(rule, construct, r.pos(in), "")
			}
		}
		if n == 0 {
			r.Undecide(rule, ssax.FuncName(f)+": index installation site", r.fpos(f), "no store of a non-nil value to segment.index found")
		}
	}

	// 0a. segments(ctx, false) pins only the segments in use at that moment and returns the others unpinned: its
	// result is never released element by element (that would drop a reference someone else acquired meanwhile)
	{
		rule := "c14.unpinned-scan-never-released"
		n := 0
		isDecRef := func(in ssa.Instruction) (ssa.Value, bool) {
			cc := ssax.Common(in)
			if cc == nil || !strings.HasSuffix(ssax.CalleeName(cc), ").DecRef") || !strings.Contains(ssax.CalleeName(cc), stPkg+".segment") {
				return nil, false
			}
			if cc.IsInvoke() {
				return cc.Value, true
			}
			if len(cc.Args) > 0 {
				return cc.Args[0], true
			}
			return nil, false
		}
		for _, f := range funcs {
			for _, in := range ssax.Find(f, func(in ssa.Instruction) bool {
				cc := ssax.Common(in)
				return cc != nil && strings.HasSuffix(ssax.CalleeName(cc), ".segmentController[T, O]).segments")
			}) {
				args := ssax.Common(in).Args
				k, ok := args[len(args)-1].(*ssa.Const)
				if !ok || k.Value == nil || k.Value.ExactString() != "false" {
					continue
				}
				n++
				construct := fmt.Sprintf("%s: result of the unpinned scan #%d is not released element-wise", ssax.FuncName(f), n)
				var res ssa.Value = in.(ssa.Value)
				bad := ssa.Instruction(nil)
				for _, d := range ssax.Find(f, func(x ssa.Instruction) bool { _, ok := isDecRef(x); return ok }) {
					recv, _ := isDecRef(d)
					seen := map[ssa.Value]bool{}
					var from func(v ssa.Value, depth int) bool
					from = func(v ssa.Value, depth int) bool {
						if v == nil || seen[v] || depth > 12 {
							return false
						}
						seen[v] = true
						if v == res {
							return true
						}
						return anyOperand(v, func(o ssa.Value) bool { return from(o, depth+1) })
					}
					if from(recv, 0) {
						bad = d
					}
				}
				if bad != nil {
					r.Violate(rule, construct, r.pos(bad), "the scan returns dormant segments without a reference, yet every element is DecRef'ed: a query or writer that acquires such a segment between the scan and the DecRef loses its reference, the count reads 0 while the segment is in use, and idle-close / delete can pull it out from under the holder")
				} else {
					r.Hold(rule, construct, r.pos(in), "")
				}
			}
		}
		if n == 0 {
			r.Hold(rule, "no production caller uses the unpinned scan", "", "segments(ctx, false) has no call site in the storage package")
		}
	}

	// 0b. whatever closeResourcesLocked closes it also forgets: the index pointer and the shard list are reset
	// after their Close, so a reopen builds fresh resources instead of finding the closed ones
	if f := r.fn("c14.closed-resources-forgotten", stPkg, "(*segment).closeResourcesLocked"); f != nil {
		rule := "c14.closed-resources-forgotten"
		var rootField func(v ssa.Value, d int) *ssa.FieldAddr
		rootField = func(v ssa.Value, d int) *ssa.FieldAddr {
			if d > 12 || v == nil {
				return nil
			}
			switch x := v.(type) {
			case *ssa.FieldAddr:
				if _, isParam := x.X.(*ssa.Parameter); isParam {
					return x
				}
				return rootField(x.X, d+1)
			case *ssa.UnOp:
				return rootField(x.X, d+1)
			case *ssa.IndexAddr:
				return rootField(x.X, d+1)
			case *ssa.Index:
				return rootField(x.X, d+1)
			case *ssa.Extract:
				return rootField(x.Tuple, d+1)
			case *ssa.Next:
				return rootField(x.Iter, d+1)
			case *ssa.Range:
				return rootField(x.X, d+1)
			case *ssa.Phi:
				for _, e := range x.Edges {
					if fa := rootField(e, d+1); fa != nil {
						return fa
					}
				}
			case *ssa.Call:
				if strings.HasSuffix(ssax.CalleeName(x.Common()), ").Load") && len(x.Call.Args) > 0 {
					return rootField(x.Call.Args[0], d+1)
				}
			}
			return nil
		}
		n := 0
		for _, in := range ssax.Find(f, func(in ssa.Instruction) bool {
			c, ok := in.(*ssa.Call)
			if !ok {
				return false
			}
			nm := ssax.CalleeName(c.Common())
			return strings.HasSuffix(nm, ".Close") || strings.HasSuffix(nm, ".close")
		}) {
			c := in.(*ssa.Call)
			var recv ssa.Value
			if c.Call.IsInvoke() {
				recv = c.Call.Value
			} else if len(c.Call.Args) > 0 {
				recv = c.Call.Args[0]
			}
			fa := rootField(recv, 0)
			if fa == nil {
				continue
			}
			n++
			fld := ssax.FieldOf(fa)
			reset := func(x ssa.Instruction) bool {
				switch y := x.(type) {
				case *ssa.Store:
					a, ok := y.Addr.(*ssa.FieldAddr)
					return ok && ssax.FieldOf(a) == fld
				case *ssa.Call:
					if strings.HasSuffix(ssax.CalleeName(y.Common()), ").Store") && len(y.Call.Args) > 0 {
						a, ok := y.Call.Args[0].(*ssa.FieldAddr)
						return ok && ssax.FieldOf(a) == fld
					}
				}
				return false
			}
			construct := fmt.Sprintf("%s: %s closed ⇒ segment.%s reset before return", ssax.FuncName(f), ssax.CalleeName(c.Common()), fld.Name())
			if tgt, path, found := (ssax.Search{Target: ssax.IsReturn, Avoid: reset}).From(f, in); found {
				r.Violate(rule, construct, r.pos(in), fmt.Sprintf("after the close at %s the function can return (%s, blocks %s) with segment.%s still pointing at the closed resource: the next acquire finds it, skips re-creating it and hands a closed table / index to its holder", r.pos(in), r.pos(tgt), blocksStr(path), fld.Name()))
			} else {
				r.Hold(rule, construct, r.pos(in), "")
			}
		}
		r.Floor(rule, 2)
		_ = n
	}

	// 1. CAS fast path only on a positive count; all other writes under s.mu
	ruleCAS, ruleW := "c14.cas-positive-only", "c14.count-writes-locked"
	ncas, nw := 0, 0
	for _, f := range funcs {
		fname := ssax.FuncName(f)
		for _, b := range f.Blocks {
			for _, in := range b.Instrs {
				cl, ok := in.(*ssa.Call)
				if !ok || len(cl.Call.Args) == 0 || !isRefCountAddr(cl.Call.Args[0]) {
					continue
				}
				base := ssax.Path(cl.Call.Args[0].(*ssa.FieldAddr).X)
				switch ssax.CalleeName(cl.Common()) {
				case "sync/atomic.CompareAndSwapInt32":
					ncas++
					old, nw2 := cl.Call.Args[1], cl.Call.Args[2]
					construct := fmt.Sprintf("%s: CAS#%d on refCount", fname, ncas)
					bo, isBin := nw2.(*ssa.BinOp)
					if !isBin || bo.X != old || (bo.Op != token.ADD && bo.Op != token.SUB) {
						r.Undecide(ruleCAS, construct, r.pos(in), "CAS new value is not old±const")
						continue
					}
					ld, isLoad := old.(*ssa.Call)
					if !isLoad || ssax.CalleeName(ld.Common()) != "sync/atomic.LoadInt32" || !isRefCountAddr(ld.Call.Args[0]) {
						r.Undecide(ruleCAS, construct, r.pos(in), "CAS old value is not an atomic load of the same count")
						continue
					}
					bad := false
					for _, w := range []int64{0, -1} {
						if _, _, found := (ssax.Search{Target: func(x ssa.Instruction) bool { return x == in }, Edge: ssax.WorldEdge(ld, w)}).From(f, ld); found {
							r.Violate(ruleCAS, construct, r.pos(in), fmt.Sprintf("the lock-free CAS is reachable when the loaded count is %d: it could resurrect (or underflow) a dormant segment that closeIfIdle/performDelete is closing under the mutex", w))
							bad = true
							break
						}
					}
					if !bad {
						r.Hold(ruleCAS, construct, r.pos(in), "unreachable for loaded count 0 and -1")
					}
				case "sync/atomic.AddInt32", "sync/atomic.StoreInt32", "sync/atomic.SwapInt32":
					nw++
					construct := fmt.Sprintf("%s: %s on refCount", fname, strings.TrimPrefix(ssax.CalleeName(cl.Common()), "sync/atomic."))
					held := locksOf(f).At(in)[base+".mu"] == lockset.W
					if !held && f.Parent() == nil {
						held, _ = r.heldAtEntry(f, base+".mu", lockset.W, 2)
					}
					r.Check(held, ruleW, construct, r.pos(in), "non-CAS writes of the reference count hold "+base+".mu (write): they are serialized against closeIfIdle/performDelete")
				}
			}
			for _, in := range b.Instrs {
				if st, ok := in.(*ssa.Store); ok && isRefCountAddr(st.Addr) {
					nw++
					r.Violate(ruleW, fname+": plain store to refCount", r.pos(in), "non-atomic store to the reference count")
				}
			}
		}
	}
	r.Floor(ruleCAS, 4)
	r.Floor(ruleW, 3)

	// 2. close / delete only at zero, under the mutex
	rule := "c14.close-at-zero"
	closeFn := r.fn(rule, stPkg, "(*segment).closeResourcesLocked")
	isClose := func(in ssa.Instruction) bool {
		cl, ok := in.(*ssa.Call)
		if !ok {
			return false
		}
		if closeFn != nil && ssax.CalleeName(cl.Common()) == ssax.FuncName(closeFn) {
			return true
		}
		if strings.HasSuffix(ssax.CalleeName(cl.Common()), ".MustRMAll") && len(cl.Call.Args) > 0 {
			if ld, ok := cl.Call.Args[0].(*ssa.UnOp); ok && ssax.FieldQName(ld.X) == stPkg+".segment.location" {
				return true
			}
		}
		return false
	}
	nclose := 0
	for _, f := range funcs {
		fname := ssax.FuncName(f)
		for _, in := range ssax.Find(f, isClose) {
			nclose++
			cl := in.(*ssa.Call)
			var base string
			if cl.Call.IsInvoke() {
				base = strings.TrimSuffix(ssax.Path(cl.Call.Args[0]), ".location")
			} else {
				base = ssax.Path(cl.Call.Args[0])
			}
			construct := fmt.Sprintf("%s: %s#%d", fname, shortCallee(cl), nclose)
			if locksOf(f).At(in)[base+".mu"] != lockset.W {
				r.Violate(rule, construct, r.pos(in), "segment resources closed / directory removed without holding "+base+".mu (write)")
				continue
			}
			if fname == "(*"+stPkg+".segmentController[T, O]).close" {
				r.Hold(rule, construct, r.pos(in), "under the mutex; full shutdown closes regardless of references (database is closing, table-level readers were stopped) — listed exception")
				continue
			}
			// a count load taken under the lock must gate the call
			gated := false
			for _, ld := range ssax.Find(f, func(x ssa.Instruction) bool {
				c, ok := x.(*ssa.Call)
				return ok && ssax.CalleeName(c.Common()) == "sync/atomic.LoadInt32" && isRefCountAddr(c.Call.Args[0]) && ssax.Dominates(x, in)
			}) {
				if locksOf(f).At(ld)[base+".mu"] != lockset.W {
					continue
				}
				reach := false
				for _, w := range []int64{1, 2} {
					if _, _, found := (ssax.Search{Target: func(x ssa.Instruction) bool { return x == in }, Edge: ssax.WorldEdge(ld.(*ssa.Call), w)}).From(f, ld); found {
						reach = true
					}
				}
				if !reach {
					gated = true
				}
			}
			r.Check(gated, rule, construct, r.pos(in), "gated by a reference-count load taken under the same mutex: unreachable when that count is positive")
		}
	}
	r.Floor(rule, 5)

	// 3. acquire refuses a flagged, unreferenced segment before reopening
	if f := r.fn("c14.acquire-refuses-deleted", stPkg, "(*segment).acquire"); f != nil {
		rule := "c14.acquire-refuses-deleted"
		cond := ""
		for _, cs := range ssax.Conds(f) {
			if strings.Contains(cs, "mustBeDeleted") {
				cond = cs
			}
		}
		construct := ssax.FuncName(f) + ": no initialize / count store when flagged for deletion"
		if cond == "" {
			r.Violate(rule, construct, r.fpos(f), "no test of mustBeDeleted in acquire: a deleted segment's directory could be reopened")
		} else {
			eff := ssax.Or(ssax.CallTo("(*"+stPkg+".segment[T, O]).initialize"), ssax.CallTo("sync/atomic.StoreInt32"))
			// follow only the "flag set" outcome
			flagTrue := func(from *ssa.BasicBlock, succ int) bool {
				iff, ok := from.Instrs[len(from.Instrs)-1].(*ssa.If)
				if !ok || ssax.Cond(iff.Cond) != cond {
					return true
				}
				if strings.Contains(cond, "!= 0") {
					return succ == 0
				}
				return succ == 1
			}
			if tgt, _, found := (ssax.Search{Target: eff, Edge: flagTrue}).From(f, nil); found {
				r.Violate(rule, construct, r.pos(tgt), "initialize/refCount store reachable although mustBeDeleted is set")
			} else {
				r.Hold(rule, construct, r.fpos(f), "guard: "+cond)
			}
			r.mustSeq(rule, f, exitOK(f), nil, call("(*sync.RWMutex).Lock"))
		}
	}

	// 4. index pointer under the mutex
	n := r.guardedField("c14.index-under-lock", stPkg+".segment.index", "mu", []string{stPkg}, map[string]string{
		"(*" + stPkg + ".segment[T, O]).IndexDB": "Segment API accessor: contract 'caller holds a reference' (single read into the result)",
		"(*" + stPkg + ".segment[T, O]).Lookup":  "Segment API accessor: contract 'caller holds a reference'",
	})
	if n == 0 {
		r.Undecide("c14.index-under-lock", stPkg+".segment.index", "", "no access found")
	}
	r.Floor("c14.index-under-lock", 10)

	// 5. DecRef runs performDelete only on 1→0 of a flagged segment
	if f := r.fn("c14.decref-delete", stPkg, "(*segment).DecRef"); f != nil {
		rule := "c14.decref-delete"
		pd := ssax.CallTo("(*" + stPkg + ".segment[T, O]).performDelete")
		lds := ssax.Find(f, func(x ssa.Instruction) bool {
			c, ok := x.(*ssa.Call)
			return ok && ssax.CalleeName(c.Common()) == "sync/atomic.LoadInt32" && isRefCountAddr(c.Call.Args[0])
		})
		construct := ssax.FuncName(f) + ": performDelete only when the count went 1→0"
		if len(lds) != 1 || len(ssax.Find(f, pd)) == 0 {
			r.Violate(rule, construct, r.fpos(f), "expected one count load and a performDelete call")
		} else {
			bad := false
			for _, w := range []int64{2, 3, 0} {
				if tgt, _, found := (ssax.Search{Target: pd, Edge: ssax.WorldEdge(lds[0].(*ssa.Call), w)}).From(f, lds[0]); found {
					r.Violate(rule, construct, r.pos(tgt), fmt.Sprintf("performDelete reachable when the count before the decrement was %d", w))
					bad = true
				}
			}
			if !bad {
				r.Hold(rule, construct, r.fpos(f), "unreachable for prior counts 0,2,3")
			}
			// and it must be reachable-and-mandatory for 1 with the flag set
			cond := ""
			for _, cs := range ssax.Conds(f) {
				if strings.Contains(cs, "mustBeDeleted") {
					cond = cs
				}
			}
			cas := ssax.Find(f, ssax.CallTo("sync/atomic.CompareAndSwapInt32"))
			if cond != "" && len(cas) == 1 {
				edge := ssax.AndEdges(ssax.WorldEdge(lds[0].(*ssa.Call), 1), ssax.PruneCond(cond, !strings.Contains(cond, "!= 0")), casSucceeds(cas[0].(*ssa.Call)))
				r.mustSeq(rule, f, exitAny, edge, NM{"CAS", func(x ssa.Instruction) bool { return x == cas[0] }}, NM{"performDelete", pd})
			} else {
				r.Violate(rule, ssax.FuncName(f)+": deferred delete runs on last release", r.fpos(f), "no mustBeDeleted test or not exactly one CAS")
			}
		}
	}

	// 6. every reference is returned
	r.segmentRefs()
}

func shortCallee(c *ssa.Call) string {
	n := ssax.CalleeName(c.Common())
	return n[strings.LastIndex(n, ".")+1:]
}

// casSucceeds keeps only the outcome where the given CAS call returned true.
func casSucceeds(cas *ssa.Call) ssax.EdgeFilter {
	return func(from *ssa.BasicBlock, succ int) bool {
		iff, ok := from.Instrs[len(from.Instrs)-1].(*ssa.If)
		if !ok || iff.Cond != ssa.Value(cas) {
			return true
		}
		return succ == 0
	}
}

func (r *R) segmentRefs() {
	rule := "c14.refs-returned"
	k := segmentKind()
	k.ConsumesCall = r.consumesSummary(segmentKind())
	type site struct {
		in             ssa.Instruction
		resIdx, errIdx int
		recv           bool
	}
	var sites []site
	for _, f := range r.P.ModuleFuncs("banyand", "pkg") {
		for _, b := range f.Blocks {
			for _, in := range b.Instrs {
				cl, ok := in.(*ssa.Call)
				if !ok {
					continue
				}
				n := ssax.CalleeName(cl.Common())
				switch {
				case strings.HasPrefix(n, "iface:("+stPkg+".TSDB[") && (strings.HasSuffix(n, ").SelectSegments") || strings.HasSuffix(n, ").CreateSegmentIfNotExist")):
					sites = append(sites, site{in, 0, 1, false})
				case n == "(*"+stPkg+".segmentController[T, O]).segments", n == "(*"+stPkg+".segmentController[T, O]).selectSegments", n == "(*"+stPkg+".segmentController[T, O]).createSegment",
					n == "(*"+stPkg+".database[T, O]).SelectSegments", n == "(*"+stPkg+".database[T, O]).CreateSegmentIfNotExist":
					sites = append(sites, site{in, 0, 1, false})
				case n == "(*"+stPkg+".segment[T, O]).incRef":
					sites = append(sites, site{in, -1, -1, true})
				}
			}
		}
	}
	sort.Slice(sites, func(i, j int) bool { return sites[i].in.Pos() < sites[j].in.Pos() })
	perFn := map[string]int{}
	for _, s := range sites {
		f := s.in.Parent()
		fname := ssax.FuncName(f)
		perFn[fname]++
		construct := fmt.Sprintf("%s: ref#%d (%s)", fname, perFn[fname], shortCallee(s.in.(*ssa.Call)))
		var res *pair.Site
		if s.recv {
			cl := s.in.(*ssa.Call)
			recv := cl.Call.Args[0]
			roots := []ssa.Value{recv}
			if p := ssax.Path(recv); strings.Contains(p, ".") || strings.Contains(p, "[") {
				for _, b := range f.Blocks {
					for _, x := range b.Instrs {
						if v, ok := x.(ssa.Value); ok && v != recv && ssax.Path(v) == p && v.Type() == recv.Type() {
							roots = append(roots, v)
						}
					}
				}
			}
			res = pair.Analyze(k, f, s.in, roots, map[ssa.Value]bool{cl: true})
		} else {
			res = pair.AnalyzeCall(k, s.in, s.resIdx, s.errIdx)
		}
		var evs []string
		for _, e := range res.Events {
			evs = append(evs, e.What)
		}
		sort.Strings(evs)
		if res.LeakExit != nil {
			r.Violate(rule, construct, r.pos(s.in), fmt.Sprintf("segment reference obtained at %s can reach the exit at %s without DecRef or hand-over (%s); events %v", r.pos(s.in), r.pos(res.LeakExit), blocksStr(res.LeakPath), evs))
		} else {
			r.Hold(rule, construct, r.pos(s.in), "events: "+strings.Join(evs, ","))
		}
		// collections: partial acquisition must unwind
		seen := map[ssa.Value]bool{}
		for _, e := range res.Events {
			var root ssa.Value
			var start ssa.Instruction
			switch e.What {
			case "append":
				if ac := pair.AppendCallOf(e.In); ac != nil {
					root, start = ac, ac
				}
			case "store-elem":
				if st, ok := e.In.(*ssa.Store); ok {
					if ia, ok := st.Addr.(*ssa.IndexAddr); ok {
						if ms, ok := ia.X.(*ssa.MakeSlice); ok {
							root, start = ms, e.In
						}
					}
				}
			}
			if root == nil || seen[root] {
				continue
			}
			seen[root] = true
			cres := pair.Analyze(k, f, start, []ssa.Value{root}, nil)
			cconstruct := fmt.Sprintf("%s: collection of ref#%d", fname, perFn[fname])
			if cres.LeakExit != nil {
				r.Violate("c14.loop-unwind", cconstruct, r.pos(cres.LeakExit), fmt.Sprintf("segments pinned so far (collected at %s) are neither released nor returned on the exit at %s (%s): a mid-loop failure leaks their references", r.pos(start), r.pos(cres.LeakExit), blocksStr(cres.LeakPath)))
			} else {
				r.Hold("c14.loop-unwind", cconstruct, r.pos(start), "released element-wise, returned or stored on every exit")
			}
		}
	}
	r.Stat("segment_ref_sites", len(sites))
	r.Floor(rule, 30)
	r.Floor("c14.loop-unwind", 2)
}
