package rules

import (
	"fmt"
	"go/ast"
	"go/constant"
	"go/token"
	"go/types"
	"sort"
	"strings"

	"golang.org/x/tools/go/ssa"

	"bvcheck/internal/core"
	"bvcheck/internal/ssax"
)

func init() {
	register(&core.Property{
		ID:    "C11",
		Title: "Storage codecs round-trip exactly and decoders never crash on bad bytes",
		Decides: "every encode-type / block-type / compression-type tag an encoder can emit is a case of the matching decoder (Int64ListToBytes vs BytesToInt64List, uint64 block types, compress types, tag encoders), and value types handled by tag encoders are handled by tag decoders; " +
			"a narrowing conversion in an encoder sits under a range test that fits the narrower width (a one-byte length can hold every length the branch admits); " +
			"lengths and counts read from the input bytes are compared with the remaining input before they bound a slice or an allocation, and the comparison is made before any conversion to a signed int; the set of panic sites reachable from error-returning decoders is exactly the reviewed caller-contract assertions.; the in-place string-array decoder is only ever applied to bytes its caller owns (a clone on some path, or a reviewed caller that receives a private copy): a dictionary entry shared by the rows of a block is never un-escaped in place",
		NotDecided: "round-trip equality (incl. decimal float scaling and its overflow refusal), termination, constant-offset indexing in fixed-stride loops.",
		Technique:  "emit⊆handle constant-set agreement on the typed syntax tree and SSA; guarded narrowing check by constant evaluation; SSA taint from wire reads to slice/alloc bounds with dominance; static call-graph reachability of panic sites",
		Run:        runC11,
	})
}

// constsByValue maps the constants of named type typ in pkgRel by value.
func (r *R) constsByValue(pkgRel, typ string) map[string]string {
	out := map[string]string{}
	pk := r.P.Pkg(pkgRel)
	if pk == nil || pk.Types == nil {
		return out
	}
	sc := pk.Types.Scope()
	for _, n := range sc.Names() {
		if c, ok := sc.Lookup(n).(*types.Const); ok && typeNameOf(c.Type()) == typ {
			out[c.Val().ExactString()] = c.Name()
		}
	}
	return out
}

// returnedConstsSSA: constants (by name, via byVal) that can reach result slot idx of fn through phis.
func (r *R) returnedConstsSSA(fn *ssa.Function, idx int, byVal map[string]string) []string {
	set := map[string]bool{}
	var visit func(v ssa.Value, d int)
	seen := map[ssa.Value]bool{}
	visit = func(v ssa.Value, d int) {
		if v == nil || seen[v] || d > 12 {
			return
		}
		seen[v] = true
		switch x := v.(type) {
		case *ssa.Const:
			if x.Value != nil {
				if n, ok := byVal[x.Value.ExactString()]; ok {
					set[n] = true
				}
			}
		case *ssa.Phi:
			for _, e := range x.Edges {
				visit(e, d+1)
			}
		case *ssa.UnOp:
			if al, ok := x.X.(*ssa.Alloc); ok && x.Op == token.MUL {
				for _, ref := range *al.Referrers() {
					if st, ok := ref.(*ssa.Store); ok && st.Addr == al {
						visit(st.Val, d+1)
					}
				}
			}
		case *ssa.Call:
			// pass-through of a callee's result in the same slot type (e.g. GetVersionType): follow static callee
			if callee := x.Common().StaticCallee(); callee != nil && len(callee.Blocks) > 0 && d < 3 {
				for _, n := range r.returnedConstsSSA(callee, 0, byVal) {
					set[n] = true
				}
			}
		case *ssa.Extract:
			if c, ok := x.Tuple.(*ssa.Call); ok {
				if callee := c.Common().StaticCallee(); callee != nil && len(callee.Blocks) > 0 && d < 3 {
					for _, n := range r.returnedConstsSSA(callee, x.Index, byVal) {
						set[n] = true
					}
				}
			}
		}
	}
	for _, b := range fn.Blocks {
		for _, in := range b.Instrs {
			if ret, ok := in.(*ssa.Return); ok && idx < len(ret.Results) {
				visit(ssax.Unspill(ret.Results[idx], ret), 0)
			}
		}
	}
	var out []string
	for n := range set {
		out = append(out, n)
	}
	sort.Strings(out)
	return out
}

// pkgConstsUsed: package-level constants with the given name prefix referenced in fn's syntax; onlyCases
// restricts to case labels.
func (r *R) pkgConstsUsed(fn *ssa.Function, prefix string, onlyCases bool) []string {
	decl, pk := r.P.FuncDecl(fn)
	if decl == nil || pk == nil {
		return nil
	}
	set := map[string]bool{}
	collect := func(n ast.Node) {
		ast.Inspect(n, func(m ast.Node) bool {
			if id, ok := m.(*ast.Ident); ok && strings.HasPrefix(id.Name, prefix) {
				if _, isC := pk.TypesInfo.Uses[id].(*types.Const); isC {
					set[id.Name] = true
				}
			}
			return true
		})
	}
	if !onlyCases {
		collect(decl)
	} else {
		ast.Inspect(decl, func(n ast.Node) bool {
			if cc, ok := n.(*ast.CaseClause); ok {
				for _, e := range cc.List {
					collect(e)
				}
			}
			return true
		})
	}
	var out []string
	for n := range set {
		out = append(out, n)
	}
	sort.Strings(out)
	return out
}

func runC11(c *core.Ctx) {
	r := newR(c)
	const enc = "pkg/encoding"
	rule := "c11.emit-subset-handle"
	byVal := r.constsByValue(enc, "EncodeType")
	if e, d := r.fn(rule, enc, "Int64ListToBytes"), r.fn(rule, enc, "BytesToInt64List"); e != nil && d != nil {
		emit := r.returnedConstsSSA(e, 1, byVal)
		handle := r.caseConsts(d, "EncodeType", false).list()
		r.sameSet(rule, "Int64ListToBytes emitted encode types ⊆ BytesToInt64List cases", r.fpos(d), "Int64ListToBytes", emit, "BytesToInt64List", handle, true)
	}
	for _, p := range [][3]string{{"encodeUint64List", "decodeUint64List", "uintBlockType"}, {"compressBlock", "decompressBlock", "compressType"}} {
		if e, d := r.fn(rule, enc, p[0]), r.fn(rule, enc, p[1]); e != nil && d != nil {
			r.sameSet(rule, p[0]+" emitted tags = "+p[1]+" cases", r.fpos(d), p[0], r.pkgConstsUsed(e, p[2], false), p[1], r.pkgConstsUsed(d, p[2], true), false)
		}
	}
	// tag encoders / decoders: value types and encode types
	const tenc = "banyand/internal/encoding"
	if e, d := r.fn(rule, tenc, "EncodeTagValues"), r.fn(rule, tenc, "DecodeTagValues"); e != nil && d != nil {
		r.sameSet(rule, "EncodeTagValues value-type cases = DecodeTagValues cases", r.fpos(d), "EncodeTagValues", r.caseConsts(e, "ValueType", false).list(), "DecodeTagValues", r.caseConsts(d, "ValueType", false).list(), false)
	}
	for _, p := range [][2]string{{"encodeInt64TagValues", "decodeInt64TagValues"}, {"encodeFloat64TagValues", "decodeFloat64TagValues"}, {"encodeDefaultTagValues", "decodeDefaultTagValues"}} {
		if e, d := r.fn(rule, tenc, p[0]), r.fn(rule, tenc, p[1]); e != nil && d != nil {
			emit := r.returnedConstsSSA(e, 0, byVal)
			handle := r.caseConsts(d, "EncodeType", false).names
			hname := p[1]
			// a decoder that delegates the remaining types to BytesToInt64List handles that function's cases too
			if len(ssax.Find(d, ssax.CallTo("pkg/encoding.BytesToInt64List"))) > 0 {
				if bl := r.P.Func(enc, "BytesToInt64List"); bl != nil {
					for n := range r.caseConsts(bl, "EncodeType", false).names {
						handle[n] = true
					}
					hname += " ∪ BytesToInt64List"
				}
			}
			r.sameSet(rule, p[0]+" emitted encode types ⊆ "+p[1]+" cases", r.fpos(d), p[0], emit, hname, constSet{names: handle}.list(), true)
		}
	}
	r.Floor(rule, 6)

	// narrowing under a fitting range test
	rule = "c11.narrowing-fits"
	for _, name := range []string{"encodeUint64List", "compressBlock", "EncodeBytesBlock"} {
		if f := r.fn(rule, enc, name); f != nil {
			r.narrowingFits(rule, f)
		}
	}
	r.Floor(rule, 4)

	// wire-derived lengths are checked before use
	rule = "c11.wire-length-checked"
	nsinks := 0
	for _, f := range r.P.ModuleFuncs(enc, tenc) {
		if f.Parent() != nil || ssax.ErrResultIndex(f) < 0 {
			continue
		}
		nsinks += r.wireLengths(rule, f)
	}
	r.Stat("wire_length_sinks", nsinks)
	r.Floor(rule, 5)

	// panic sites behind error-returning decoders
	rule = "c11.no-new-panic"
	reviewed := map[string]string{
		"pkg/encoding.bytesDeltaToInt64List":               "asserts the caller-supplied itemsCount ≥ 1 (not derived from the bytes being decoded)",
		"pkg/encoding.bytesDeltaOfDeltaToInt64s":           "asserts the caller-supplied itemsCount ≥ 2 (not derived from the bytes being decoded)",
		"pkg/encoding.int64ListDeltaToBytes":               "encoder-side assertion",
		"pkg/encoding.int64sDeltaOfDeltaToBytes":           "encoder-side assertion",
		"pkg/encoding.Int64ListToBytes":                    "encoder-side assertion",
		"banyand/internal/encoding.decodeInt64TagValues":   "engine-level fail-fast: a part whose tag column does not decode is treated as corruption and panics by project policy (not a codec of pkg/encoding)",
		"banyand/internal/encoding.decodeFloat64TagValues": "engine-level fail-fast on a corrupted tag column (project policy)",
		"banyand/internal/encoding.decodeDefaultTagValues": "engine-level fail-fast on a corrupted tag column (project policy)",
		"pkg/convert.BytesToInt16":                         "fixed-width conversion asserts its caller passed ≥2 bytes",
		"pkg/convert.BytesToInt32":                         "fixed-width conversion asserts its caller passed ≥4 bytes",
		"pkg/convert.BytesToInt64":                         "fixed-width conversion asserts its caller passed ≥8 bytes",
	}
	reached := map[string]string{}
	ndec := 0
	for _, f := range r.P.ModuleFuncs(enc, tenc) {
		if f.Parent() != nil || ssax.ErrResultIndex(f) < 0 || f.Object() == nil || !strings.Contains(strings.ToLower(f.Name()), "decode") && !strings.HasPrefix(f.Name(), "BytesTo") && !strings.HasPrefix(f.Name(), "Unmarshal") && !strings.Contains(f.Name(), "ToFloat64List") {
			continue
		}
		ndec++
		r.reach(f, func(g *ssa.Function) bool {
			if ssax.FuncName(g) == "pkg/logger.Panicf" {
				return false // the no-return helper itself; its call sites are what is counted
			}
			for _, b := range g.Blocks {
				for _, in := range b.Instrs {
					if ssax.IsNoReturn(in) {
						if _, isPanic := in.(*ssa.Panic); isPanic || true {
							if _, ok := reached[ssax.FuncName(g)]; !ok {
								reached[ssax.FuncName(g)] = ssax.FuncName(f) + " → … → " + ssax.FuncName(g) + " at " + r.pos(in)
							}
						}
					}
				}
			}
			return false
		}, func(g *ssa.Function) bool {
			return g.Pkg != nil && (ssax.Short(g.Pkg.Pkg.Path()) == enc || ssax.Short(g.Pkg.Pkg.Path()) == tenc)
		})
		// the decoder itself
		for _, b := range f.Blocks {
			for _, in := range b.Instrs {
				if ssax.IsNoReturn(in) {
					reached[ssax.FuncName(f)] = ssax.FuncName(f) + " at " + r.pos(in)
				}
			}
		}
	}
	r.Stat("error_returning_decoders", ndec)
	for _, g := range sortedKeys(reached) {
		why, ok := reviewed[g]
		if ok {
			r.Hold(rule, "panic site in "+g, "", "reviewed: "+why)
		} else {
			r.Violate(rule, "panic site in "+g, "", "a decoder that reports errors can reach a panic that is not in the reviewed list: "+reached[g])
		}
	}
	if ndec < 8 {
		r.Undecide(rule, "error-returning decoders", "", fmt.Sprintf("only %d decoders found", ndec))
	}
	r.Floor(rule, 2)

	// the in-place array decoder only ever writes into bytes its caller owns: a dictionary-encoded column hands
	// the same entry to every row that carries the value, so the engines decode a private copy (at least
	// whenever the value contains the escape byte, i.e. whenever the decoder would write)
	{
		rule := "c11.inplace-decode-owns-bytes"
		reviewed := map[string]string{
			"pkg/pipeline/sdk.DecodeTagValueInto":        "the engine hands it a per-row arena copy (trace/pipeline_chain.go)",
			"banyand/internal/dump.decodePackedStrArray": "offline dump tool decoding a private copy",
			"pkg/encoding.UnmarshalVarArray":             "the thin wrapper itself",
		}
		n := 0
		for _, f := range r.P.ModuleFuncs("banyand/internal/sidx", "banyand/trace", "banyand/stream", "banyand/measure", "pkg/filter", "pkg/pipeline/sdk", "banyand/internal/dump", "pkg/encoding") {
			for _, in := range ssax.Find(f, func(in ssa.Instruction) bool {
				cc := ssax.Common(in)
				if cc == nil {
					return false
				}
				nm := ssax.CalleeName(cc)
				return nm == "pkg/encoding.UnmarshalVarArray" || nm == "pkg/encoding/vararray.UnmarshalVarArray"
			}) {
				n++
				fname := ssax.FuncName(f)
				construct := fmt.Sprintf("%s: in-place array decode #%d works on bytes the function owns", fname, n)
				if why, ok := reviewed[fname]; ok {
					r.Hold(rule, construct, r.pos(in), "reviewed: "+why)
					continue
				}
				src := ssax.Common(in).Args[0]
				owned := flowsFromCallWhere(src, func(c *ssa.Call) bool {
					nm := ssax.CalleeName(c.Common())
					return nm == "bytes.Clone" || nm == "slices.Clone" || nm == "builtin:append" || nm == "builtin:copy"
				}, 0)
				if _, isMake := src.(*ssa.MakeSlice); isMake {
					owned = true
				}
				r.Check(owned, rule, construct, r.pos(in), "the bytes handed to the in-place decoder come straight from the caller (a dictionary entry shared by every row with that value): the second row is decoded from already un-escaped bytes and returns different elements than were written, or fails to decode")
			}
		}
		r.Floor(rule, 4)
	}
}

// narrowingFits: for every If "X < T" / "X <= T" (T constant) in fn, every conversion to a narrower unsigned
// integer type inside the region dominated by the true edge must be able to hold the largest admitted value.
func (r *R) narrowingFits(rule string, fn *ssa.Function) {
	n := 0
	for _, b := range fn.Blocks {
		iff, ok := b.Instrs[len(b.Instrs)-1].(*ssa.If)
		if !ok {
			continue
		}
		bo, ok := iff.Cond.(*ssa.BinOp)
		if !ok || (bo.Op != token.LSS && bo.Op != token.LEQ) {
			continue
		}
		k, ok := bo.Y.(*ssa.Const)
		if !ok || k.Value == nil || k.Value.Kind() != constant.Int {
			continue
		}
		t, _ := constant.Uint64Val(k.Value)
		maxv := t
		if bo.Op == token.LSS {
			if t == 0 {
				continue
			}
			maxv = t - 1
		}
		region := b.Succs[0]
		other := b.Succs[1]
		for _, bb := range fn.Blocks {
			if bb != region && !region.Dominates(bb) {
				continue
			}
			if other == bb || other.Dominates(bb) {
				continue
			}
			for _, in := range bb.Instrs {
				cv, ok := in.(*ssa.Convert)
				if !ok {
					continue
				}
				bt, ok := cv.Type().Underlying().(*types.Basic)
				if !ok {
					continue
				}
				bits := map[types.BasicKind]uint{types.Uint8: 8, types.Uint16: 16, types.Uint32: 32}[bt.Kind()]
				if bits == 0 {
					continue
				}
				st, ok := cv.X.Type().Underlying().(*types.Basic)
				if !ok || st.Info()&types.IsInteger == 0 {
					continue
				}
				// only conversions of the tested value itself or of values bounded by it (loop elements under a max test)
				n++
				limit := uint64(1)<<bits - 1
				construct := fmt.Sprintf("%s: conversion#%d to %s under %s", ssax.FuncName(fn), n, bt.Name(), ssax.Cond(iff.Cond))
				r.Check(maxv <= limit, rule, construct, r.pos(cv), fmt.Sprintf("the branch admits values up to %d but the target type holds at most %d: larger values wrap silently", maxv, limit))
			}
		}
	}
}

var wireReaders = map[string]int{
	"pkg/encoding.BytesToVarUint64": 1, "pkg/encoding.BytesToVarInt64": 1, "pkg/encoding.BytesToUint16": 0, "pkg/encoding.BytesToUint32": 0,
	"pkg/encoding.BytesToUint64": 0, "pkg/encoding.BytesToInt64": 0, "pkg/encoding.BytesToInt16": 0, "pkg/encoding.BytesToInt32": 0,
}

// wireLengths: in fn, every slice bound / make size that derives from a value read out of the input bytes
// is dominated by a comparison involving that value; when the value passes through a conversion to a signed
// type on its way, the dominating comparison must involve the unconverted (unsigned) value.
func (r *R) wireLengths(rule string, fn *ssa.Function) int {
	isSource := func(v ssa.Value) bool {
		switch x := v.(type) {
		case *ssa.Extract:
			if c, ok := x.Tuple.(*ssa.Call); ok {
				if idx, ok := wireReaders[ssax.CalleeName(c.Common())]; ok && idx == x.Index {
					return true
				}
			}
		case *ssa.Call:
			if idx, ok := wireReaders[ssax.CalleeName(x.Common())]; ok && idx == 0 {
				if _, isTuple := x.Type().(*types.Tuple); !isTuple {
					return true
				}
			}
		case *ssa.UnOp:
			// src[i] of a []byte parameter
			if ia, ok := x.X.(*ssa.IndexAddr); ok && x.Op == token.MUL {
				if bt, ok := x.Type().Underlying().(*types.Basic); ok && bt.Kind() == types.Uint8 && flowsFromAnyParam(ia.X, 0) {
					return true
				}
			}
		}
		return false
	}
	// sources feeding v, with whether a signed conversion was crossed
	type src struct {
		v      ssa.Value
		signed bool
	}
	var trace func(v ssa.Value, signed bool, d int, out *[]src, seen map[ssa.Value]bool)
	trace = func(v ssa.Value, signed bool, d int, out *[]src, seen map[ssa.Value]bool) {
		if v == nil || d > 10 || seen[v] {
			return
		}
		seen[v] = true
		if isSource(v) {
			*out = append(*out, src{v, signed})
			return
		}
		switch x := v.(type) {
		case *ssa.Convert:
			s := signed
			if bt, ok := x.Type().Underlying().(*types.Basic); ok && bt.Info()&types.IsUnsigned == 0 && bt.Info()&types.IsInteger != 0 {
				if ft, ok := x.X.Type().Underlying().(*types.Basic); ok && ft.Info()&types.IsUnsigned != 0 && ft.Kind() != types.Uint8 && ft.Kind() != types.Uint16 && ft.Kind() != types.Uint32 {
					s = true
				}
			}
			trace(x.X, s, d+1, out, seen)
		case *ssa.BinOp:
			trace(x.X, signed, d+1, out, seen)
			trace(x.Y, signed, d+1, out, seen)
		case *ssa.Phi:
			for _, e := range x.Edges {
				trace(e, signed, d+1, out, seen)
			}
		}
	}
	involves := func(cond ssa.Value, target ssa.Value) bool {
		found := false
		var walk func(v ssa.Value, d int)
		seen := map[ssa.Value]bool{}
		walk = func(v ssa.Value, d int) {
			if v == nil || d > 8 || seen[v] || found {
				return
			}
			seen[v] = true
			if v == target {
				found = true
				return
			}
			switch x := v.(type) {
			case *ssa.BinOp:
				walk(x.X, d+1)
				walk(x.Y, d+1)
			case *ssa.Convert:
				walk(x.X, d+1)
			case *ssa.UnOp:
				walk(x.X, d+1)
			case *ssa.Phi:
				for _, e := range x.Edges {
					walk(e, d+1)
				}
			}
		}
		walk(cond, 0)
		return found
	}
	count := 0
	check := func(sink ssa.Instruction, bound ssa.Value, what string) {
		if bound == nil {
			return
		}
		var srcs []src
		trace(bound, false, 0, &srcs, map[ssa.Value]bool{})
		for i, s := range srcs {
			count++
			construct := fmt.Sprintf("%s: %s at %s bounded by wire value #%d", ssax.FuncName(fn), what, r.pos(sink), i+1)
			// dominating comparison involving the source
			guarded, guardedUnsigned := false, false
			for b := sink.Block(); b != nil; b = b.Idom() {
				id := b.Idom()
				if id == nil {
					break
				}
				iff, ok := id.Instrs[len(id.Instrs)-1].(*ssa.If)
				if !ok {
					continue
				}
				bo, ok := iff.Cond.(*ssa.BinOp)
				if !ok {
					continue
				}
				if involves(bo, s.v) {
					guarded = true
					// is the comparison made on unsigned operands?
					if bt, ok := bo.X.Type().Underlying().(*types.Basic); ok && bt.Info()&types.IsUnsigned != 0 {
						guardedUnsigned = true
					}
				}
			}
			switch {
			case !guarded:
				r.Violate(rule, construct, r.pos(sink), "a length/offset read from the input bytes bounds a slice or allocation without a dominating comparison against the available input: corrupted input would panic instead of returning an error")
			case s.signed && !guardedUnsigned:
				r.Violate(rule, construct, r.pos(sink), "the wire value is converted to a signed int before it is compared: a value ≥ 2^63 becomes negative, passes the check and panics in the slice expression")
			default:
				r.Hold(rule, construct, r.pos(sink), "dominated by a comparison on the wire value")
			}
		}
	}
	for _, b := range fn.Blocks {
		for _, in := range b.Instrs {
			switch x := in.(type) {
			case *ssa.Slice:
				check(in, x.Low, "slice low bound")
				check(in, x.High, "slice high bound")
			case *ssa.MakeSlice:
				check(in, x.Len, "make length")
			}
		}
	}
	return count
}
