package rules

import (
	"fmt"
	"go/token"
	"sort"
	"strings"

	"golang.org/x/tools/go/ssa"

	"bvcheck/internal/core"
	"bvcheck/internal/ssax"
)

func init() {
	register(&core.Property{
		ID:         "C15",
		Title:      "Vectorized execution returns what row execution returns",
		Decides:    "(sibling agreement only) with the feature flag off the vectorized dispatcher returns 'not handled' before doing anything else; the columnar frame encoder and decoder handle the same column types; the row and the vectorized engines derive sort directions from the request in the same way (same constant, same operator, per source field); the per-node limit template of the vectorized distributed plan applies the default limit before adding the offset, like the row plan; the measure block cursor's row copy (copyAllTo) and its columnar twin (copyAllToBatch) take the same canonical row window and count.; if the row plan can force a series-ordered storage scan (GroupBy over the entity tags) the vectorized dispatcher can too",
		NotDecided: "response equality for any query (translation validation, out of this family), error-boundary parity, parity of the vectorized merge/top-N comparators with the row heaps (their bodies mix type assertions and multi-kind values outside the comparison-only fragment).",
		Technique:  "dominance of the flag exit, case-set agreement, cross-package agreement of enum comparisons, comparator truth tables, SSA def-use of the node limit, canonical symbolic expression equality between twins",
		Run:        runC15,
	})
}

func runC15(c *core.Ctx) {
	r := newR(c)
	const vplan = "pkg/query/vectorized/measure/plan"
	// 1. flag off ⇒ untouched
	if f := r.fn("c15.flag-off-untouched", vplan, "Dispatch"); f != nil {
		rule := "c15.flag-off-untouched"
		cond := ""
		for _, cs := range ssax.Conds(f) {
			if strings.HasSuffix(cs, ".Enabled") {
				cond = cs
			}
		}
		construct := ssax.FuncName(f) + ": nothing runs before the Enabled test fails"
		if cond == "" {
			r.Violate(rule, construct, r.fpos(f), "no test of cfg.Enabled; conditions: "+strings.Join(ssax.Conds(f), "; "))
		} else {
			work := func(in ssa.Instruction) bool {
				cl, ok := in.(*ssa.Call)
				if !ok {
					return false
				}
				n := ssax.CalleeName(cl.Common())
				return n != "" && !strings.HasPrefix(n, "builtin:") && !strings.HasPrefix(n, "(*sync/atomic.")
			}
			if tgt, _, found := (ssax.Search{Target: work, Edge: ssax.PruneCond(cond, true)}).From(f, nil); found {
				r.Violate(rule, construct, r.pos(tgt), "with the flag off the dispatcher still calls "+ssax.CalleeName(ssax.Common(tgt))+" before falling through to the row path")
			} else {
				r.Hold(rule, construct, r.fpos(f), "guard: "+cond)
			}
			// and it returns handled=false on that outcome
			okRet := false
			for _, ret := range ssax.Find(f, ssax.IsReturn) {
				rv := ret.(*ssa.Return)
				if len(rv.Results) == 4 && ssax.IsFalse(ssax.Unspill(rv.Results[2], rv)) {
					if _, _, reach := (ssax.Search{Target: func(in ssa.Instruction) bool { return in == ret }, Edge: ssax.PruneCond(cond, true)}).From(f, nil); reach {
						okRet = true
					}
				}
			}
			r.Check(okRet, rule, ssax.FuncName(f)+": flag off returns handled=false", r.fpos(f), "")
		}
	}
	// 2. frame codec
	{
		rule := "c15.frame-codec-types"
		const fr = "pkg/query/vectorized/frame"
		e, d := r.fn(rule, fr, "appendColumnData"), r.fn(rule, fr, "readColumnData")
		if e != nil && d != nil {
			r.sameSet(rule, "frame encoder column types = frame decoder column types", r.fpos(d), "appendColumnData", r.caseConsts(e, "ColumnType", false).list(), "readColumnData", r.caseConsts(d, "ColumnType", false).list(), false)
		}
	}
	// 3. sort directions derived identically
	{
		rule := "c15.sort-direction-agreement"
		type use struct{ op, k, pos, fn string }
		groups := map[string][]use{}
		for _, f := range r.P.ModuleFuncs("pkg/query/logical/measure", "pkg/query/vectorized/measure") {
			for _, b := range f.Blocks {
				for _, in := range b.Instrs {
					bo, ok := in.(*ssa.BinOp)
					if !ok || (bo.Op != token.EQL && bo.Op != token.NEQ) {
						continue
					}
					k, ok := bo.Y.(*ssa.Const)
					v := bo.X
					if !ok {
						k, ok = bo.X.(*ssa.Const)
						v = bo.Y
					}
					if !ok || typeNameOf(v.Type()) != "Sort" || k.Value == nil {
						continue
					}
					src := "other"
					if cl, isCall := v.(*ssa.Call); isCall {
						n := ssax.CalleeName(cl.Common())
						src = n[strings.LastIndex(n, ".")+1:]
					} else if p := ssax.Path(v); strings.Contains(p, ".") {
						src = p[strings.LastIndex(p, ".")+1:]
					}
					src = strings.TrimPrefix(src, "Get")
					groups[src] = append(groups[src], use{bo.Op.String(), k.Value.ExactString(), r.pos(in), ssax.FuncName(f)})
				}
			}
		}
		var names []string
		for g := range groups {
			names = append(names, g)
		}
		sort.Strings(names)
		n := 0
		for _, g := range names {
			us := groups[g]
			n += len(us)
			kinds := map[string]string{}
			for _, u := range us {
				kinds[u.op+" "+u.k] = u.pos + " in " + u.fn
			}
			if len(kinds) == 1 {
				r.Hold(rule, "direction from "+g+" is derived the same way at every site", us[0].pos, fmt.Sprintf("%d site(s), all %s", len(us), sortedKeys(kinds)[0]))
			} else {
				var ds []string
				for k, p := range kinds {
					ds = append(ds, k+" at "+p)
				}
				sort.Strings(ds)
				r.Violate(rule, "direction from "+g+" is derived the same way at every site", us[0].pos, "row and vectorized sites disagree on how an unset direction is read: "+strings.Join(ds, "; "))
			}
		}
		r.Stat("sort_direction_sites", n)
		r.Floor(rule, 2)
	}
	// 5. node limit template: default before offset (vectorized distributed = row distributed)
	{
		rule := "c15.node-limit-default"
		for _, spec := range []struct{ pkg, fn string }{{vplan, "AnalyzeDistributed"}, {"pkg/query/logical/measure", "(*unresolvedDistributed).Analyze"}} {
			f := r.fn(rule, spec.pkg, spec.fn)
			if f == nil {
				continue
			}
			ok := false
			var pos string
			for _, in := range ssax.FindDeep(f, func(in ssa.Instruction) bool {
				st, isSt := in.(*ssa.Store)
				return isSt && strings.HasSuffix(ssax.FieldQName(st.Addr), "measure/v1.QueryRequest.Limit")
			}) {
				pos = r.pos(in)
				v := in.(*ssa.Store).Val
				// limit+offset where limit is a phi of the request limit and a non-zero default
				if bo, isBin := v.(*ssa.BinOp); isBin && bo.Op == token.ADD {
					for _, side := range []ssa.Value{bo.X, bo.Y} {
						if phi, isPhi := side.(*ssa.Phi); isPhi {
							for _, e := range phi.Edges {
								if k, isC := e.(*ssa.Const); isC && k.Value != nil && k.Int64() > 0 {
									ok = true
								}
							}
						}
					}
				}
			}
			r.Check(ok, rule, ssax.FuncName(f)+": node Limit = (limit or default) + offset", pos, "an unset limit must become the default before the offset is added, otherwise nodes are asked for 'offset' rows only")
		}
	}

	// both engines force the series-ordered storage scan for GroupBy-by-entity: the set of order types each engine's
	// scan builder may put into the storage options is the same
	{
		rule := "c15.scan-order-type-agreement"
		orderTypes := func(f *ssa.Function) map[string]bool {
			out := map[string]bool{}
			if f == nil {
				return out
			}
			byVal := r.constsByValue("pkg/index", "OrderByType")
			for _, g := range append([]*ssa.Function{f}, f.AnonFuncs...) {
				for _, b := range g.Blocks {
					for _, in := range b.Instrs {
						st, ok := in.(*ssa.Store)
						if !ok || !strings.HasSuffix(ssax.FieldQName(st.Addr), "pkg/index.OrderBy.Type") {
							continue
						}
						if k, isK := st.Val.(*ssa.Const); isK && k.Value != nil {
							if n, ok := byVal[k.Value.ExactString()]; ok {
								out[n] = true
							}
						}
					}
				}
			}
			return out
		}
		var row map[string]bool
		for _, f := range r.P.ModuleFuncs("pkg/query/logical/measure") {
			if strings.Contains(r.fpos(f), "measure_plan_indexscan_local.go:") {
				for k := range orderTypes(f) {
					if row == nil {
						row = map[string]bool{}
					}
					row[k] = true
				}
			}
		}
		vec := orderTypes(r.fn(rule, "pkg/query/vectorized/measure/plan", "Dispatch"))
		construct := "row local index scan / vectorized Dispatch: both can force the series-ordered scan"
		switch {
		case len(row) == 0:
			r.Undecide(rule, construct, "", "the row plan stores no constant order type (anchor moved)")
		case row["OrderByTypeSeries"] && !vec["OrderByTypeSeries"]:
			// (the other order types reach the vectorized scan by copying the request's OrderBy, not by a constant)
			r.Violate(rule, construct, "", fmt.Sprintf("the row plan can force a series-ordered storage scan (GroupBy over exactly the entity tags) but the vectorized dispatcher never does (it stores %v): the two engines scan in different orders and, with a limit or offset, return different series", sortedKeys(vec)))
		default:
			r.Hold(rule, construct, "", fmt.Sprintf("%v", sortedKeys(row)))
		}
	}

	// the row copy and its columnar twin take the same window of the block cursor
	{
		rule := "c15.row-batch-window"
		const m = "banyand/measure"
		windows := func(f *ssa.Function) (map[string]bool, map[string]bool) {
			sl, sz := map[string]bool{}, map[string]bool{}
			for _, b := range f.Blocks {
				for _, in := range b.Instrs {
					switch x := in.(type) {
					case *ssa.Slice:
						v := x.X
						if l, ok := v.(*ssa.UnOp); ok {
							v = l.X
						}
						if fv := ssax.FieldOf(v); fv != nil && fv.Name() == "timestamps" && strings.HasPrefix(ssax.Path(v), "recv.") {
							sl["["+ssax.Canon(x.Low)+":"+ssax.Canon(x.High)+"]"] = true
						}
					case *ssa.BinOp:
						_, px := x.X.(*ssa.Phi)
						_, py := x.Y.(*ssa.Phi)
						_, cx := x.X.(*ssa.Const)
						_, cy := x.Y.(*ssa.Const)
						if x.Op == token.SUB && (px || py) && !cx && !cy {
							sz[ssax.Canon(x)] = true
						}
					}
				}
			}
			return sl, sz
		}
		row, bat := r.fn(rule, m, "(*blockCursor).copyAllTo"), r.fn(rule, m, "(*blockCursor).copyAllToBatch")
		if row != nil && bat != nil {
			rs, rz := windows(row)
			bs, bz := windows(bat)
			construct := "copyAllTo / copyAllToBatch: same cursor window"
			switch {
			case len(rs) == 0 || len(bs) == 0 || len(rz) == 0 || len(bz) == 0:
				r.Undecide(rule, construct, r.fpos(bat), "window expressions not found in one of the twins")
			case !sameKeys(rs, bs) || !sameKeys(rz, bz):
				r.Violate(rule, construct, r.fpos(bat), fmt.Sprintf("the row engine copies timestamps%v (count %v), the columnar engine timestamps%v (count %v): once a block cursor has been advanced the two engines return different rows for the same query", sortedKeys(rs), sortedKeys(rz), sortedKeys(bs), sortedKeys(bz)))
			default:
				r.Hold(rule, construct, r.fpos(bat), fmt.Sprintf("timestamps%v, count %v", sortedKeys(rs), sortedKeys(rz)))
			}
		}
	}
}

func sameKeys(a, b map[string]bool) bool {
	if len(a) != len(b) {
		return false
	}
	for k := range a {
		if !b[k] {
			return false
		}
	}
	return true
}
