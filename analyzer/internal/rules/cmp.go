package rules

import (
	"fmt"
	"go/ast"
	"go/types"
	"strings"

	"golang.org/x/tools/go/ssa"

	"bvcheck/internal/cmpeval"
	"bvcheck/internal/ssax"
)

// evaluator returns a cmpeval.Eval that inlines module functions.
func (r *R) evaluator() *cmpeval.Eval {
	return &cmpeval.Eval{Resolve: func(fn *types.Func) (*ast.FuncDecl, *types.Info) {
		if fn.Pkg() == nil || !strings.HasPrefix(fn.Pkg().Path(), strings.TrimSuffix(ssax.Module, "/")) {
			return nil, nil
		}
		sf := r.P.SSA.FuncValue(fn.Origin())
		if sf == nil {
			return nil, nil
		}
		d, pk := r.P.FuncDecl(sf)
		if d == nil || pk == nil {
			return nil, nil
		}
		return d, pk.TypesInfo
	}}
}

// cmpFunc decides a comparator / predicate function against spec. One obligation.
func (r *R) cmpFunc(rule, pkg, name, what string, spec cmpeval.Func, minCases int) {
	f := r.fn(rule, pkg, name)
	if f == nil {
		return
	}
	r.cmpSSA(rule, f, what, spec, minCases)
}

func (r *R) cmpSSA(rule string, f *ssa.Function, what string, spec cmpeval.Func, minCases int) {
	construct := ssax.FuncName(f) + " ≡ " + what
	var code cmpeval.Func
	ev := r.evaluator()
	switch syn := f.Syntax().(type) {
	case *ast.FuncDecl:
		_, pk := r.P.FuncDecl(f)
		if pk == nil {
			r.Undecide(rule, construct, r.fpos(f), "no type information for the function")
			return
		}
		code = ev.FuncOf(syn, pk.TypesInfo)
	case *ast.FuncLit:
		outer := f
		for outer.Parent() != nil {
			outer = outer.Parent()
		}
		_, pk := r.P.FuncDecl(outer)
		if pk == nil {
			r.Undecide(rule, construct, r.fpos(f), "no type information for the enclosing function")
			return
		}
		code = ev.LitOf(syn, pk.TypesInfo)
	default:
		r.Undecide(rule, construct, r.fpos(f), "no syntax for the function")
		return
	}
	res := cmpeval.Decide(code, spec)
	r.Stat("abstract_cases", res.Cases)
	r.Stat("comparators", 1)
	switch {
	case res.Undecided != "":
		r.Undecide(rule, construct, r.fpos(f), "outside the comparison-only fragment: "+res.Undecided)
	case res.Mismatch != "":
		r.Violate(rule, construct, r.fpos(f), fmt.Sprintf("%d of %d abstract cases disagree with the stated order; e.g. %s", res.Mismatches, res.Cases, res.Mismatch))
	case res.Cases < minCases:
		r.Undecide(rule, construct, r.fpos(f), fmt.Sprintf("only %d abstract cases enumerated (expected ≥ %d): the comparator no longer looks at the expected keys", res.Cases, minCases))
	default:
		r.Hold(rule, construct, r.fpos(f), fmt.Sprintf("%d abstract cases over atoms {%s} flags {%s}", res.Cases, strings.Join(res.Atoms, ", "), strings.Join(res.Flags, ", ")))
	}
}

func key(l, rr string) cmpeval.Key     { return cmpeval.Key{L: l, R: rr} }
func keyDesc(l, rr string) cmpeval.Key { return cmpeval.Key{L: l, R: rr, Desc: true} }
func lex(keys ...cmpeval.Key) cmpeval.Func {
	return func(w *cmpeval.World) bool { return w.LexLess(keys...) }
}
