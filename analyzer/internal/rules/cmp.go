package rules

import (
	"fmt"
	"go/ast"
	"go/types"
	"strings"

	"golang.org/x/tools/go/ssa"

	"bvcheck/internal/cmpeval"
	"bvcheck/internal/ssax"
)

// evaluator returns a cmpeval.Eval that inlines module functions.
func (r *R) evaluator() *cmpeval.Eval {
	return &cmpeval.Eval{Resolve: func(fn *types.Func) (*ast.FuncDecl, *types.Info) {
		if fn.Pkg() == nil || !strings.HasPrefix(fn.Pkg().Path(), strings.TrimSuffix(ssax.Module, "/")) {
			return nil, nil
		}
		sf := r.P.SSA.FuncValue(fn.Origin())
		if sf == nil {
			return nil, nil
		}
		d, pk := r.P.FuncDecl(sf)
		if d == nil || pk == nil {
			return nil, nil
		}
		return d, pk.TypesInfo
	}}
}

// cmpFunc decides a comparator / predicate function against spec. One obligation.
func (r *R) cmpFunc(rule, pkg, name, what string, spec cmpeval.Func, minCases int) {
	f := r.fn(rule, pkg, name)
	if f == nil {
		return
	}
	r.cmpSSA(rule, f, what, spec, minCases)
}

func (r *R) cmpSSA(rule string, f *ssa.Function, what string, spec cmpeval.Func, minCases int) {
	construct := ssax.FuncName(f) + " ≡ " + what
	var code cmpeval.Func
	ev := r.evaluator()
	switch syn := f.Syntax().(type) {
	case *ast.FuncDecl:
		_, pk := r.P.FuncDecl(f)
		if pk == nil {
			r.Undecide(rule, construct, r.fpos(f), "no type information for the function")
			return
		}
		code = ev.FuncOf(syn, pk.TypesInfo)
	case *ast.FuncLit:
		outer := f
		for outer.Parent() != nil {
			outer = outer.Parent()
		}
		_, pk := r.P.FuncDecl(outer)
		if pk == nil {
			r.Undecide(rule, construct, r.fpos(f), "no type information for the enclosing function")
			return
		}
		code = ev.LitOf(syn, pk.TypesInfo)
	default:
		r.Undecide(rule, construct, r.fpos(f), "no syntax for the function")
		return
	}
	res := cmpeval.Decide(code, spec)
	r.Stat("abstract_cases", res.Cases)
	r.Stat("comparators", 1)
	switch {
	case res.Undecided != "":
		r.Undecide(rule, construct, r.fpos(f), "outside the comparison-only fragment: "+res.Undecided)
	case res.Mismatch != "":
		r.Violate(rule, construct, r.fpos(f), fmt.Sprintf("%d of %d abstract cases disagree with the stated order; e.g. %s", res.Mismatches, res.Cases, res.Mismatch))
	case res.Cases < minCases:
		r.Undecide(rule, construct, r.fpos(f), fmt.Sprintf("only %d abstract cases enumerated (expected ≥ %d): the comparator no longer looks at the expected keys", res.Cases, minCases))
	default:
		r.Hold(rule, construct, r.fpos(f), fmt.Sprintf("%d abstract cases over atoms {%s} flags {%s}", res.Cases, strings.Join(res.Atoms, ", "), strings.Join(res.Flags, ", ")))
	}
}

func key(l, rr string) cmpeval.Key     { return cmpeval.Key{L: l, R: rr} }
func keyDesc(l, rr string) cmpeval.Key { return cmpeval.Key{L: l, R: rr, Desc: true} }
func lex(keys ...cmpeval.Key) cmpeval.Func {
	return func(w *cmpeval.World) bool { return w.LexLess(keys...) }
}

// kspec names one key of a lexicographic order by a substring of its atom; direction may depend on a flag.
type kspec struct {
	Match    string // substring identifying the left atom of this key
	Desc     bool
	AscFlag  string // if set: ascending iff the flag containing this substring is true
	DescFlag string // if set: descending iff the flag containing this substring is true
}

// cmpLex decides "fn ≡ strict lexicographic order over keys" where the left/right operands are told apart by
// the markers in sides (e.g. {"$0","$1"} for Less(i,j), {"$r","$0"} for a.less(b)). Atom names are discovered
// from the function itself; a key that matches no atom (or several) makes the instance undecided.
func (r *R) cmpLex(rule, pkg, name string, sides [2]string, what string, keys ...kspec) {
	f := r.fn(rule, pkg, name)
	if f == nil {
		return
	}
	r.cmpLexSSA(rule, f, sides, what, keys...)
}

func (r *R) cmpLexSSA(rule string, f *ssa.Function, sides [2]string, what string, keys ...kspec) {
	construct := ssax.FuncName(f) + " ≡ " + what
	code := r.codeOf(f)
	if code == nil {
		r.Undecide(rule, construct, r.fpos(f), "no syntax/type information for the function")
		return
	}
	probe := cmpeval.Decide(code, func(w *cmpeval.World) bool { return false })
	if probe.Undecided != "" {
		r.Undecide(rule, construct, r.fpos(f), "outside the comparison-only fragment: "+probe.Undecided)
		return
	}
	find := func(list []string, sub, must string) (string, bool) {
		hit := ""
		for _, a := range list {
			if strings.Contains(a, sub) && (must == "" || strings.Contains(a, must)) {
				if hit != "" && hit != a {
					return "", false
				}
				hit = a
			}
		}
		return hit, hit != ""
	}
	type rk struct {
		l, r              string
		desc              bool
		ascFlag, descFlag string
	}
	var rks []rk
	for _, k := range keys {
		l, ok := find(probe.Atoms, k.Match, sides[0])
		if !ok {
			// the key may only appear on one side textually when sides share a prefix; fail closed
			r.Violate(rule, construct, r.fpos(f), fmt.Sprintf("the comparator does not look at key %q (atoms seen: %s)", k.Match, strings.Join(probe.Atoms, ", ")))
			return
		}
		rr := strings.ReplaceAll(l, sides[0], "\x00")
		rr = strings.ReplaceAll(rr, "\x00", sides[1])
		x := rk{l: l, r: rr, desc: k.Desc}
		if k.AscFlag != "" {
			fl, ok := find(probe.Flags, k.AscFlag, "")
			if !ok {
				r.Violate(rule, construct, r.fpos(f), fmt.Sprintf("direction flag %q not consulted (flags seen: %s)", k.AscFlag, strings.Join(probe.Flags, ", ")))
				return
			}
			x.ascFlag = fl
		}
		if k.DescFlag != "" {
			fl, ok := find(probe.Flags, k.DescFlag, "")
			if !ok {
				r.Violate(rule, construct, r.fpos(f), fmt.Sprintf("direction flag %q not consulted (flags seen: %s)", k.DescFlag, strings.Join(probe.Flags, ", ")))
				return
			}
			x.descFlag = fl
		}
		rks = append(rks, x)
	}
	spec := func(w *cmpeval.World) bool {
		var ks []cmpeval.Key
		for _, k := range rks {
			d := k.desc
			if k.ascFlag != "" {
				d = !w.Flag(k.ascFlag)
			}
			if k.descFlag != "" {
				d = w.Flag(k.descFlag)
			}
			ks = append(ks, cmpeval.Key{L: k.l, R: k.r, Desc: d})
		}
		return w.LexLess(ks...)
	}
	min := 1
	for range keys {
		min *= 3
	}
	r.cmpCode(rule, f, construct, code, spec, min)
}

func (r *R) codeOf(f *ssa.Function) cmpeval.Func {
	ev := r.evaluator()
	switch syn := f.Syntax().(type) {
	case *ast.FuncDecl:
		_, pk := r.P.FuncDecl(f)
		if pk == nil {
			return nil
		}
		return ev.FuncOf(syn, pk.TypesInfo)
	case *ast.FuncLit:
		outer := f
		for outer.Parent() != nil {
			outer = outer.Parent()
		}
		_, pk := r.P.FuncDecl(outer)
		if pk == nil {
			return nil
		}
		return ev.LitOf(syn, pk.TypesInfo)
	}
	return nil
}

func (r *R) cmpCode(rule string, f *ssa.Function, construct string, code, spec cmpeval.Func, minCases int) {
	res := cmpeval.Decide(code, spec)
	r.Stat("abstract_cases", res.Cases)
	r.Stat("comparators", 1)
	switch {
	case res.Undecided != "":
		r.Undecide(rule, construct, r.fpos(f), "outside the comparison-only fragment: "+res.Undecided)
	case res.Mismatch != "":
		r.Violate(rule, construct, r.fpos(f), fmt.Sprintf("%d of %d abstract cases disagree with the stated order; e.g. %s", res.Mismatches, res.Cases, res.Mismatch))
	case res.Cases < minCases:
		r.Undecide(rule, construct, r.fpos(f), fmt.Sprintf("only %d abstract cases enumerated (expected ≥ %d)", res.Cases, minCases))
	default:
		r.Hold(rule, construct, r.fpos(f), fmt.Sprintf("%d abstract cases over atoms {%s} flags {%s}", res.Cases, strings.Join(res.Atoms, ", "), strings.Join(res.Flags, ", ")))
	}
}
