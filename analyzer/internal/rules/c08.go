package rules

import (
	"fmt"
	"go/token"
	"go/types"
	"strings"

	"golang.org/x/tools/go/ssa"

	"bvcheck/internal/core"
	"bvcheck/internal/ssax"
)

func init() {
	register(&core.Property{
		ID:    "C08",
		Title: "Criteria mean the same with or without indexes and pruning",
		Decides: "the Bloom filter probes the same (word, bit) sequence when adding and when testing an item (canonical SSA expressions of the probe index, the mask and the probe count are equal); part pruning by time / key range discards a part exactly when its range is disjoint from the query range, over every ordering of the four endpoints; " +
			"every place that dispatches on a criteria operator handles the same operator set (index filter builders, in-scan tag filters, inverted-index query builder, secondary-index tag filter); the trace-id part filter skips a part only when no requested id may be contained; block/primary-block time bounds are maintained as running min/max against their own accumulator, and a function that re-arms an accumulator's first-value guard also resets or consumes that accumulator (a part-level range is not restarted per primary block); the primary-block search of measure, stream and trace part iterators starts at the block that may hold the head of a straddling series (predicate: key <= first key; result n-1); the stream element index accumulates the id list and the timestamp list of every matching series together.; (stream skipping index) a block ruled out by the block filter advances the iterator by one block, never to the next series; the dictionary of an array-typed tag is never installed as a block filter; block filters are probed with the literal's stored encoding (Bytes), never its display text; every filter node handed out as index.Filter declares ShouldSkip / Execute itself (no method satisfied only by a nil embedded interface); an OR node is not built from a DummyFilter operand ('true OR x' is true); the dictionary filter's stored values are never mutated while being consulted; a stream block whose recorded min or max of a tag is empty is never pruned by a range condition",
		NotDecided: "that the rows selected are exactly those satisfying the predicate, analyzer/tokenizer semantics of the inverted index, the block-level searches inside a primary block (findBlock).",
		Technique:  "canonical symbolic expression equality between sibling functions (E8), relational world pruning on range endpoints, case-set agreement across packages, guarded accumulator updates; truth table of the binary-search predicate; per-iteration path enumeration with phi resolution (two accumulators move together); re-arm/consume agreement of first-value guards",
		Run:        runC08,
	})
}

func runC08(c *core.Ctx) {
	r := newR(c)
	// 1. Bloom probes
	{
		rule := "c08.bloom-same-probes"
		add, test := r.fn(rule, "pkg/filter", "(*BloomFilter).Add"), r.fn(rule, "pkg/filter", "(*BloomFilter).MightContain")
		if add != nil && test != nil {
			probe := func(f *ssa.Function) (idx, mask, bound string, ok bool) {
				for _, in := range ssax.Find(f, ssax.CallTo("sync/atomic.LoadUint64")) {
					ia, isIA := in.(*ssa.Call).Call.Args[0].(*ssa.IndexAddr)
					if !isIA {
						continue
					}
					idx = ssax.Canon(ia.Index)
					break
				}
				// the mask: a left shift of the constant 1
				for _, b := range f.Blocks {
					for _, in := range b.Instrs {
						if bo, isBin := in.(*ssa.BinOp); isBin && bo.Op.String() == "<<" && mask == "" {
							if k, isC := bo.X.(*ssa.Const); isC && k.Value != nil && k.Value.ExactString() == "1" {
								mask = ssax.Canon(bo)
							}
						}
					}
				}
				for _, b := range f.Blocks {
					if iff, isIf := b.Instrs[len(b.Instrs)-1].(*ssa.If); isIf {
						if bo, isBin := iff.Cond.(*ssa.BinOp); isBin {
							if _, isPhi := bo.X.(*ssa.Phi); isPhi && bo.Op.String() == "<" {
								if k, isC := bo.Y.(*ssa.Const); isC {
									bound = k.Value.ExactString()
								}
							}
						}
					}
				}
				return idx, mask, bound, idx != "" && mask != "" && bound != ""
			}
			ai, am, ab, ok1 := probe(add)
			ti, tm, tb, ok2 := probe(test)
			if !ok1 || !ok2 {
				r.Undecide(rule, "BloomFilter.Add vs MightContain", r.fpos(add), "probe expression not found in one of the two functions")
			} else {
				r.Check(ai == ti, rule, "BloomFilter: word index expression of Add = MightContain", r.fpos(test), "Add: "+ai+" | MightContain: "+ti)
				r.Check(am == tm, rule, "BloomFilter: bit mask expression of Add = MightContain", r.fpos(test), "Add: "+am+" | MightContain: "+tm)
				r.Check(ab == tb, rule, "BloomFilter: probe count of Add = MightContain", r.fpos(test), "Add: "+ab+" | MightContain: "+tb)
			}
		}
		r.Floor(rule, 3)
	}

	// 2. range pruning = disjointness
	{
		rule := "c08.prune-iff-disjoint"
		for _, s := range sibsAll {
			recv, lo, hi := "(*snapshot).getParts", ".MinTimestamp", ".MaxTimestamp"
			if s.tag == "X" {
				recv, lo, hi = "(*Snapshot).getParts", ".MinKey", ".MaxKey"
			}
			f := r.fn(rule, s.pkg, recv)
			if f == nil {
				continue
			}
			var qMin, qMax *ssa.Parameter
			for _, p := range f.Params {
				n := strings.ToLower(p.Name())
				if strings.HasPrefix(n, "min") {
					qMin = p
				}
				if strings.HasPrefix(n, "max") {
					qMax = p
				}
			}
			construct := ssax.FuncName(f) + ": a part is skipped iff its range is disjoint from the query range"
			if qMin == nil || qMax == nil {
				r.Undecide(rule, construct, r.fpos(f), "query range parameters (min*/max*) not found")
				continue
			}
			isQMin := func(v ssa.Value) bool { return v == ssa.Value(qMin) }
			isQMax := func(v ssa.Value) bool { return v == ssa.Value(qMax) }
			isPMin := func(v ssa.Value) bool { return strings.HasSuffix(ssax.Path(v), lo) }
			isPMax := func(v ssa.Value) bool { return strings.HasSuffix(ssax.Path(v), hi) }
			keep := func(in ssa.Instruction) bool { return len(ssax.AppendedValues(in)) > 0 }
			// start of one iteration: the block of the first range comparison
			var first *ssa.BasicBlock
			for _, b := range f.Blocks {
				for _, in := range b.Instrs {
					if bo, ok := in.(*ssa.BinOp); ok && first == nil && (isQMax(bo.X) && isPMin(bo.Y) || isPMin(bo.X) && isQMax(bo.Y) || isQMin(bo.X) && isPMax(bo.Y) || isPMax(bo.X) && isQMin(bo.Y)) {
						first = b
					}
				}
			}
			if first == nil {
				r.Violate(rule, construct, r.fpos(f), "no comparison between the query range and the part range found")
				continue
			}
			again := func(in ssa.Instruction) bool { return in == first.Instrs[0] }
			bad := ""
			for _, w := range []struct {
				a, b  int // rel(qMax,pMin), rel(qMin,pMax)
				reach bool
			}{{-1, -1, false}, {+1, +1, false}, {0, 0, true}, {+1, -1, true}, {0, -1, true}, {+1, 0, true}} {
				edge := ssax.AndEdges(ssax.RelEdge(isQMax, isPMin, w.a), ssax.RelEdge(isQMin, isPMax, w.b))
				_, _, found := (ssax.Search{Target: keep, Edge: edge, Avoid: again}).From(f, first.Instrs[0])
				if found != w.reach {
					bad = fmt.Sprintf("with query.max %s part.min and query.min %s part.max the part is %s", rel(w.a), rel(w.b), map[bool]string{true: "kept although the ranges are disjoint", false: "skipped although the ranges overlap"}[found])
				}
			}
			if bad != "" {
				r.Violate(rule, construct, r.pos(first.Instrs[0]), bad)
			} else {
				r.Hold(rule, construct, r.pos(first.Instrs[0]), "6 endpoint orderings")
			}
		}
		r.Floor(rule, 4)
	}

	// 3. operator tables
	{
		rule := "c08.operator-tables"
		type site struct {
			fn  *ssa.Function
			set []string
		}
		var sites []site
		for _, f := range r.P.ModuleFuncs("pkg/query/logical", "pkg/index/inverted", "banyand/internal/sidx", "banyand/stream", "banyand/trace", "banyand/measure") {
			cs := r.caseConsts(f, "Condition_BinaryOp", false)
			if cs.found && len(cs.names) >= 6 {
				sites = append(sites, site{f, cs.list()})
			}
		}
		r.Stat("operator_switches", len(sites))
		if len(sites) < 3 {
			r.Undecide(rule, "switches over Condition_BinaryOp", "", fmt.Sprintf("only %d switches with ≥6 operator cases found", len(sites)))
		} else {
			// reference: the union; each site must handle the union or be listed as a partial dispatcher
			union := map[string]bool{}
			for _, s := range sites {
				for _, n := range s.set {
					union[n] = true
				}
			}
			ref := constSet{names: union}.list()
			for _, s := range sites {
				miss := setDiff(ref, s.set)
				name := ssax.FuncName(s.fn)
				if why, ok := partialOperatorDispatch[name]; ok {
					r.Hold(rule, name+" operator cases (partial by design)", r.fpos(s.fn), why)
					continue
				}
				if len(miss) > 0 {
					r.Violate(rule, name+" handles every criteria operator its siblings handle", r.fpos(s.fn), "operators handled elsewhere but not here: "+strings.Join(miss, ", ")+" — the same criteria would be evaluated by one path and rejected or ignored by another")
				} else {
					r.Hold(rule, name+" handles every criteria operator its siblings handle", r.fpos(s.fn), fmt.Sprintf("%d operators", len(s.set)))
				}
			}
		}
		r.Floor(rule, 3)
	}

	// 4. trace-id part filter
	if f := r.fn("c08.traceid-filter", sibT.pkg, "(*snapshot).getParts"); f != nil && len(f.AnonFuncs) >= 1 {
		rule := "c08.traceid-filter"
		g := f.AnonFuncs[0]
		// "return true" (skip) must be unreachable once some MightContain returned true
		skip := func(in ssa.Instruction) bool {
			ret, ok := in.(*ssa.Return)
			return ok && len(ret.Results) == 1 && ssax.IsTrue(ret.Results[0])
		}
		mc := ssax.Find(g, func(in ssa.Instruction) bool {
			cl, ok := in.(*ssa.Call)
			return ok && strings.HasSuffix(ssax.CalleeName(cl.Common()), ".MightContain")
		})
		construct := ssax.FuncName(g) + ": part skipped only if no requested trace id may be contained"
		if len(mc) != 1 {
			r.Violate(rule, construct, r.fpos(g), "expected one MightContain call in the skip predicate")
		} else {
			hit := func(from *ssa.BasicBlock, succ int) bool {
				iff, ok := from.Instrs[len(from.Instrs)-1].(*ssa.If)
				if !ok || iff.Cond != ssa.Value(mc[0].(*ssa.Call)) {
					return true
				}
				return succ == 0
			}
			if tgt, _, found := (ssax.Search{Target: skip, Edge: hit, Avoid: func(in ssa.Instruction) bool { return in == mc[0] }}).From(g, mc[0]); found {
				r.Violate(rule, construct, r.pos(tgt), "the part is skipped although its filter may contain one of the requested ids")
			} else {
				r.Hold(rule, construct, r.fpos(g), "")
			}
		}
	}

	// 5. running min/max accumulators in the block writers
	{
		rule := "c08.range-accumulators"
		rule2 := "c08.accumulator-rearm"
		n, nRearm := 0, 0
		for _, s := range sibsAll {
			f := r.P.Func(s.pkg, "(*blockWriter).mustWriteBlock")
			if f == nil {
				continue
			}
			for _, b := range f.Blocks {
				iff, ok := b.Instrs[len(b.Instrs)-1].(*ssa.If)
				if !ok {
					continue
				}
				bo, ok := iff.Cond.(*ssa.BinOp)
				if !ok || (bo.Op.String() != "<" && bo.Op.String() != ">") {
					continue
				}
				// pattern: if <new> OP <acc> { acc = new }: find a store in the true successor to a field whose path equals one operand
				for _, in := range b.Succs[0].Instrs {
					st, ok := in.(*ssa.Store)
					if !ok {
						continue
					}
					accPath := ssax.Path(st.Addr)
					if !strings.HasPrefix(accPath, "recv.") {
						continue
					}
					xp, yp := ssax.Path(bo.X), ssax.Path(bo.Y)
					newP := ssax.Path(st.Val)
					if newP != xp && newP != yp {
						continue
					}
					n++
					other := yp
					if newP == yp {
						other = xp
					}
					lower := strings.ToLower(accPath)
					dirOK := true
					// a min accumulator is lowered (new < acc), a max accumulator is raised (new > acc)
					less := bo.Op.String() == "<" && newP == xp || bo.Op.String() == ">" && newP == yp
					if strings.Contains(lower, "min") {
						dirOK = less
					} else if strings.Contains(lower, "max") {
						dirOK = !less
					}
					construct := fmt.Sprintf("%s: %s is compared with itself before being replaced", ssax.FuncName(f), accPath)
					switch {
					case other != accPath:
						r.Violate(rule, construct, r.pos(in), fmt.Sprintf("the accumulator %s is overwritten under a comparison against %s, a different accumulator: its range stops tracking the blocks it covers and readers prune on it", accPath, other))
					case !dirOK:
						r.Violate(rule, construct, r.pos(in), "the comparison moves the accumulator in the wrong direction for its role")
					default:
						r.Hold(rule, construct, r.pos(in), "")
					}
					// the "first value" guard that arms the accumulator: if G || new OP acc { acc = new }.
					// Whoever puts G back into its first state must also reset or consume acc there, or the
					// accumulator restarts in the middle of the span its reader takes it to cover.
					for _, gp := range b.Preds {
						gif, ok := gp.Instrs[len(gp.Instrs)-1].(*ssa.If)
						if !ok || len(gp.Succs) != 2 {
							continue
						}
						if !(gp.Succs[0] == b && gp.Succs[1] == b.Succs[0] || gp.Succs[1] == b && gp.Succs[0] == b.Succs[0]) {
							continue
						}
						for _, g := range guardFields(gif.Cond) {
							if g == accPath {
								continue
							}
							nRearm++
							gf, af := strings.TrimPrefix(g, "recv."), strings.TrimPrefix(accPath, "recv.")
							for _, m := range r.P.ModuleFuncs(s.pkg) {
								if m == f || m.Signature.Recv() == nil || f.Signature.Recv() == nil || !types.Identical(m.Signature.Recv().Type(), f.Signature.Recv().Type()) {
									continue
								}
								rearm, touches := ssa.Instruction(nil), false
								for _, mb := range m.Blocks {
									for _, mi := range mb.Instrs {
										switch y := mi.(type) {
										case *ssa.Store:
											if pth := strings.TrimPrefix(ssax.Path(y.Addr), "recv."); pth == gf {
												if c, ok := y.Val.(*ssa.Const); ok && (c.Value == nil || c.Value.String() == "0" || c.Value.String() == "false") {
													rearm = mi
												}
											} else if pth == af {
												touches = true
											}
										case *ssa.UnOp:
											if y.Op == token.MUL && strings.TrimPrefix(ssax.Path(y.X), "recv.") == af {
												touches = true
											}
										}
									}
								}
								if rearm == nil {
									continue
								}
								c2 := fmt.Sprintf("%s re-arms %s, the first-value guard of %s.%s", ssax.FuncName(m), gf, ssax.FuncName(f), af)
								if touches {
									r.Hold(rule2, c2, r.pos(rearm), "")
								} else {
									r.Violate(rule2, c2, r.pos(rearm), fmt.Sprintf("%s puts %s back into its first state without resetting or consuming %s: the next block overwrites the accumulator, so the range handed to its reader no longer covers the earlier blocks of the span and pruning on it discards matching rows", ssax.FuncName(m), gf, af))
								}
							}
						}
					}
				}
			}
		}
		r.Floor(rule, 8)
		_ = nRearm
		for _, s := range sibsMST {
			r.pbmSearchInclusive("c08.pbm-search-inclusive", s.pkg)
		}
		r.Floor("c08.pbm-search-inclusive", 3)

		// a block-level skipping filter rules out ONE block: the iterator moves to the next block of the same
		// series, never to the next series (a series may own several blocks in one part)
		if f := r.fn("c08.block-skip-advances-one-block", sibS.pkg, "(*partIter).findBlock"); f != nil {
			rule := "c08.block-skip-advances-one-block"
			construct := ssax.FuncName(f) + ": a block skipped by the block filter does not abandon the rest of its series"
			// the If on the ShouldSkip outcome: its condition derives from a call whose (deep) body invokes index.Filter.ShouldSkip
			var skipIf *ssa.If
			for _, b := range f.Blocks {
				iff, ok := b.Instrs[len(b.Instrs)-1].(*ssa.If)
				if !ok {
					continue
				}
				v := iff.Cond
				if ex, ok := v.(*ssa.Extract); ok {
					v = ex.Tuple
				}
				c, ok := v.(*ssa.Call)
				if !ok {
					continue
				}
				direct := strings.HasSuffix(ssax.CalleeName(c.Common()), ".ShouldSkip")
				if mc, isC := c.Call.Value.(*ssa.MakeClosure); isC {
					direct = direct || len(ssax.FindDeep(mc.Fn.(*ssa.Function), func(in ssa.Instruction) bool {
						cc := ssax.Common(in)
						return cc != nil && strings.HasSuffix(ssax.CalleeName(cc), ".ShouldSkip")
					})) > 0
				}
				if direct {
					skipIf = iff
				}
			}
			if skipIf == nil {
				r.Undecide(rule, construct, r.fpos(f), "no branch on the block filter's ShouldSkip outcome found")
			} else {
				first := skipIf.Block().Succs[0].Instrs[0]
				h := innermostLoopHeader(skipIf.Block())
				nextSeries := func(in ssa.Instruction) bool {
					cc := ssax.Common(in)
					return cc != nil && (strings.HasSuffix(ssax.CalleeName(cc), ".nextSeriesID") || strings.HasSuffix(ssax.CalleeName(cc), ".searchTargetSeriesID"))
				}
				again := func(in ssa.Instruction) bool { return h != nil && in == h.Instrs[0] || ssax.IsReturn(in) }
				if tgt, path, found := (ssax.Search{Target: nextSeries, Avoid: again}).From(f, first); found || nextSeries(first) {
					r.Violate(rule, construct, r.pos(skipIf), fmt.Sprintf("on the ShouldSkip outcome the iterator moves to the next SERIES (%s, blocks %s): the bloom / dictionary / min-max summary is per block, so later blocks of the same series in this part — which may hold matching rows — are never examined", r.pos(tgt), blocksStr(path)))
				} else {
					r.Hold(rule, construct, r.pos(skipIf), "")
				}
			}
		}

		// "true OR x" is true: an OR node is not built from an operand that is DummyFilter (a condition enforced
		// elsewhere — entity, order-by key — which matches everything at this level); dropping it would evaluate the
		// node as x alone and discard the rows that only satisfy the other side
		if f := r.fn("c08.or-keeps-dummy", "pkg/query/logical", "BuildTagFilter"); f != nil {
			rule := "c08.or-keeps-dummy"
			isDummy := func(v ssa.Value) bool {
				if mi, ok := v.(*ssa.MakeInterface); ok {
					v = mi.X
				}
				if ci, ok := v.(*ssa.ChangeInterface); ok {
					v = ci.X
				}
				u, ok := v.(*ssa.UnOp)
				if !ok {
					return false
				}
				g, ok := u.X.(*ssa.Global)
				return ok && g.Name() == "DummyFilter"
			}
			n := 0
			for _, in := range ssax.Find(f, ssax.CallTo("pkg/query/logical.newOrLogicalNode")) {
				node := in.(*ssa.Call)
				// operands: arguments of the append calls chained on the node
				var ops []ssa.Value
				var chase func(v ssa.Value, d int)
				chase = func(v ssa.Value, d int) {
					if d > 8 || v == nil {
						return
					}
					if refs := v.Referrers(); refs != nil {
						for _, ref := range *refs {
							switch x := ref.(type) {
							case *ssa.FieldAddr, *ssa.Field, *ssa.UnOp, *ssa.ChangeType:
								chase(x.(ssa.Value), d+1) // the embedded *logicalNode the method is promoted from
							case *ssa.Call:
								if !strings.HasSuffix(ssax.CalleeName(x.Common()), ".logicalNode).append") || len(x.Call.Args) < 2 || x.Call.Args[0] != v {
									continue
								}
								ops = append(ops, x.Call.Args[1])
								chase(x, d+1)
							}
						}
					}
				}
				chase(node, 0)
				for i, op := range ops {
					n++
					opv := op
					construct := fmt.Sprintf("%s: OR node #%d is not built when operand %d is DummyFilter", ssax.FuncName(f), n, i+1)
					target := func(x ssa.Instruction) bool { return x == ssa.Instruction(node) }
					if _, path, found := (ssax.Search{Target: target, Edge: ssax.RelEdge(func(v ssa.Value) bool { return v == opv }, isDummy, 0)}).From(f, nil); found {
						r.Violate(rule, construct, r.pos(node), fmt.Sprintf("the OR node is constructed (blocks %s) although this operand may be DummyFilter; logicalNode.append drops DummyFilter operands, so `skipped-tag-condition OR x` is evaluated as `x` and rows that only satisfy the skipped condition are discarded", blocksStr(path)))
					} else {
						r.Hold(rule, construct, r.pos(node), "")
					}
				}
			}
			r.Floor(rule, 2)
		}

		// the dictionary of an array-typed tag holds whole serialized arrays and cannot answer element membership:
		// it is never installed as a block filter (MightContain answers false for array types)
		if f := r.fn("c08.array-dictionary-never-prunes", sibS.pkg, "(*tagFamilyFilter).unmarshal"); f != nil {
			rule := "c08.array-dictionary-never-prunes"
			install := func(in ssa.Instruction) bool {
				st, ok := in.(*ssa.Store)
				if !ok || !strings.HasSuffix(ssax.FieldQName(st.Addr), ".tagFilter.filter") {
					return false
				}
				mi, ok := st.Val.(*ssa.MakeInterface)
				return ok && strings.HasSuffix(mi.X.Type().String(), "filter.DictionaryFilter")
			}
			if len(ssax.Find(f, install)) == 0 {
				r.Undecide(rule, ssax.FuncName(f)+": dictionary filter installation site", r.fpos(f), "no store of a *DictionaryFilter into tagFilter.filter found")
			} else {
				isVT := func(v ssa.Value) bool {
					if u, ok := v.(*ssa.UnOp); ok {
						v = u.X
					}
					fv := ssax.FieldOf(v)
					return fv != nil && fv.Name() == "valueType"
				}
				for _, arr := range []string{"ValueTypeStrArr", "ValueTypeInt64Arr"} {
					want := r.constsByValueRev("pkg/pb/v1", "ValueType")[arr]
					if want == "" {
						want = r.constsByValueRev("api/proto/banyandb/database/v1", "ValueType")[arr]
					}
					isK := func(v ssa.Value) bool {
						k, ok := v.(*ssa.Const)
						return ok && k.Value != nil && want != "" && k.Value.ExactString() == want
					}
					construct := fmt.Sprintf("%s: no dictionary block filter when the tag's value type is %s", ssax.FuncName(f), arr)
					if want == "" {
						r.Undecide(rule, construct, r.fpos(f), "constant "+arr+" not found")
						continue
					}
					if tgt, path, found := worldSearch(f, nil, install, relAtom(isVT, isK, 0)); found {
						r.Violate(rule, construct, r.pos(tgt), fmt.Sprintf("with valueType == %s the dictionary filter is installed (blocks %s): EQ / HAVING on the array tag asks MightContain for a single element, gets false, and the block is pruned although it holds matching rows", arr, blocksStr(path)))
					} else {
						r.Hold(rule, construct, r.fpos(f), "")
					}
				}
			}
		}

		// the dictionary filter's stored values are read-only: its membership tests never hand them to an in-place
		// decoder (UnmarshalVarArray un-escapes in place) nor write into them — a second probe must see the same bytes
		{
			rule := "c08.dictionary-values-read-only"
			var flowsFrom func(v ssa.Value, root func(ssa.Value) bool, d int) bool
			flowsFrom = func(v ssa.Value, root func(ssa.Value) bool, d int) bool {
				if d > 14 || v == nil {
					return false
				}
				if root(v) {
					return true
				}
				return anyOperand(v, func(o ssa.Value) bool { return flowsFrom(o, root, d+1) })
			}
			// mutating sink reached by a value derived from root, in fn or (depth-bounded) in the module callees it is passed to
			var mutates func(fn *ssa.Function, root func(ssa.Value) bool, depth int) ssa.Instruction
			mutates = func(fn *ssa.Function, root func(ssa.Value) bool, depth int) ssa.Instruction {
				if fn == nil || fn.Blocks == nil {
					return nil
				}
				for _, in := range ssax.FindDeep(fn, func(ssa.Instruction) bool { return true }) {
					switch x := in.(type) {
					case *ssa.Call:
						nmc := ssax.CalleeName(x.Common())
						derivedArg := -1
						for i, a := range x.Call.Args {
							if flowsFrom(a, root, 0) {
								derivedArg = i
								break
							}
						}
						if derivedArg < 0 {
							continue
						}
						if strings.Contains(nmc, "UnmarshalVarArray") || strings.HasPrefix(nmc, "pkg/encoding/vararray.Unmarshal") {
							return in
						}
						if b, ok := x.Call.Value.(*ssa.Builtin); ok && b.Name() == "copy" && derivedArg == 0 {
							return in
						}
						if cal := x.Call.StaticCallee(); cal != nil && depth > 0 && strings.HasPrefix(ssax.FuncName(cal), "(*pkg/filter.") && derivedArg < len(cal.Params) {
							p := cal.Params[derivedArg]
							if bad := mutates(cal, func(v ssa.Value) bool { return v == ssa.Value(p) }, depth-1); bad != nil {
								return bad
							}
						}
					case *ssa.Store:
						if ia, ok := x.Addr.(*ssa.IndexAddr); ok && flowsFrom(ia.X, root, 0) {
							return in
						}
					}
				}
				return nil
			}
			isValues := func(v ssa.Value) bool { fv := ssax.FieldOf(v); return fv != nil && fv.Name() == "values" }
			for _, f := range r.P.ModuleFuncs("pkg/filter") {
				if f.Signature.Recv() == nil || !strings.HasSuffix(f.Signature.Recv().Type().String(), "filter.DictionaryFilter") {
					continue
				}
				reads := false
				for _, b := range f.Blocks {
					for _, in := range b.Instrs {
						if fa, ok := in.(*ssa.FieldAddr); ok && isValues(fa) {
							reads = true
						}
					}
				}
				nm := f.Name()
				if !reads || nm == "Set" || nm == "Reset" || nm == "reset" {
					continue // Set/Reset replace the values; everything else only consults them
				}
				construct := ssax.FuncName(f) + ": stored dictionary values are not mutated"
				if bad := mutates(f, isValues, 3); bad != nil {
					r.Violate(rule, construct, r.pos(bad), "the stored dictionary bytes are modified while being consulted (in-place un-escaping / element write): the next value probed in the same call, or the next call on the same filter, sees different arrays and a block holding a matching row is pruned")
				} else {
					r.Hold(rule, construct, r.fpos(f), "")
				}
			}
			r.Floor(rule, 2)
		}

		// filter nodes answer the block-level question themselves: no method of index.Filter is satisfied only by
		// promotion from an embedded interface field that no constructor ever sets (calling it dereferences nil)
		{
			rule := "c08.filter-nodes-implement-shouldskip"
			var iface *types.Interface
			if ip := r.P.Pkg("pkg/index"); ip != nil && ip.Types != nil {
				if o := ip.Types.Scope().Lookup("Filter"); o != nil {
					iface, _ = o.Type().Underlying().(*types.Interface)
				}
			}
			n := 0
			for _, pkRel := range []string{"pkg/query/logical/stream", "pkg/query/logical/trace", "pkg/query/logical/measure", "pkg/query/logical"} {
				pk := r.P.Pkg(pkRel)
				if pk == nil || pk.Types == nil || iface == nil {
					continue
				}
				// embedded fields that some function assigns (then the promoted method has a target)
				assigned := map[*types.Var]bool{}
				used := map[string]bool{} // concrete types that are actually converted to an interface value (handed out as a filter)
				for _, f := range r.P.ModuleFuncs(pkRel) {
					for _, b := range f.Blocks {
						for _, in := range b.Instrs {
							if mi, ok := in.(*ssa.MakeInterface); ok && strings.HasSuffix(mi.Type().String(), "pkg/index.Filter") {
								t := mi.X.Type()
								if p, isP := t.(*types.Pointer); isP {
									t = p.Elem()
								}
								if nt, isN := t.(*types.Named); isN {
									used[nt.Obj().Name()] = true
								}
							}
							if st, ok := in.(*ssa.Store); ok {
								if fv := ssax.FieldOf(st.Addr); fv != nil && fv.Embedded() && !ssax.IsNilConst(st.Val) {
									assigned[fv] = true
								}
							}
						}
					}
				}
				sc := pk.Types.Scope()
				for _, name := range sc.Names() {
					tn, ok := sc.Lookup(name).(*types.TypeName)
					if !ok {
						continue
					}
					st, ok := tn.Type().Underlying().(*types.Struct)
					if !ok {
						continue
					}
					ptr := types.NewPointer(tn.Type())
					if !used[name] || !types.Implements(ptr, iface) && !types.Implements(tn.Type(), iface) {
						continue
					}
					ms := types.NewMethodSet(ptr)
					for i := 0; i < iface.NumMethods(); i++ {
						m := iface.Method(i)
						sel := ms.Lookup(m.Pkg(), m.Name())
						if sel == nil {
							continue
						}
						n++
						construct := fmt.Sprintf("%s.%s answers %s itself", pkRel, name, m.Name())
						if len(sel.Index()) == 1 {
							r.Hold(rule, construct, r.P.Position(tn.Pos()), "declared on the type")
							continue
						}
						emb := st.Field(sel.Index()[0])
						if _, isIface := emb.Type().Underlying().(*types.Interface); !isIface || assigned[emb] {
							r.Hold(rule, construct, r.P.Position(tn.Pos()), "promoted from an embedded value that is assigned")
							continue
						}
						if m.Name() != "ShouldSkip" && m.Name() != "Execute" {
							r.Hold(rule, construct, r.P.Position(tn.Pos()), "promoted; not called by the scan")
							continue
						}
						r.Violate(rule, construct, r.P.Position(tn.Pos()), fmt.Sprintf("%s is only promoted from the embedded %s field, which no function of the package ever sets: the block scan calls it on every block and dereferences nil (the query fails with a panic on every attempt)", m.Name(), emb.Name()))
					}
				}
			}
			r.Floor(rule, 12)
			_ = n
		}

		// block filters are probed with the STORED encoding of the literal (LiteralExpr.Bytes: 8-byte ints, raw array
		// elements), never with its display text (String: "500", "[a b]"), which the writer never put into them
		{
			rule := "c08.block-filter-probe-encoding"
			n := 0
			perFn := map[*ssa.Function]int{}
			for _, pkRel := range probeEncodingPkgs {
				for _, f := range r.P.ModuleFuncs(pkRel) {
					for _, in := range ssax.Find(f, func(in ssa.Instruction) bool {
						cc := ssax.Common(in)
						if cc == nil {
							return false
						}
						nm := ssax.CalleeName(cc)
						return nm == "iface:(pkg/index.FilterOp).Eq" || nm == "iface:(pkg/index.FilterOp).Having"
					}) {
						n++
						perFn[f]++
						arg := ssax.Common(in).Args[1]
						construct := fmt.Sprintf("%s: probe #%d of the block filter uses the stored encoding", ssax.FuncName(f), perFn[f])
						display := flowsFromCallWhere(arg, func(c *ssa.Call) bool {
							nm := ssax.CalleeName(c.Common())
							if !strings.HasSuffix(nm, ").String") {
								return false
							}
							var recv ssa.Value
							if c.Call.IsInvoke() {
								recv = c.Call.Value
							} else if len(c.Call.Args) > 0 {
								recv = c.Call.Args[0]
							}
							return recv != nil && strings.Contains(recv.Type().String(), "pkg/query/logical.")
						}, 0)
						if display {
							r.Violate(rule, construct, r.pos(in), "the probe is the literal's display text (Expr.String()): for int, int-array and array literals it differs from the bytes the writer fed the bloom filter / dictionary, MightContain answers false and every block is pruned — the query returns nothing although the same query without the index rule returns the rows")
						} else {
							r.Hold(rule, construct, r.pos(in), "")
						}
					}
				}
			}
			r.Floor(rule, 3)
		}

		// a block without recorded min/max for a tag (blocks rewritten by the merger carry none) is never pruned by a
		// range condition: in the world "max is empty" the "skip" answer of Range is unreachable
		if f := r.fn("c08.range-needs-recorded-bounds", sibS.pkg, "(*tagFamilyFilters).Range"); f != nil {
			rule := "c08.range-needs-recorded-bounds"
			skip := func(in ssa.Instruction) bool {
				ret, ok := in.(*ssa.Return)
				return ok && len(ret.Results) == 2 && ssax.IsTrue(ret.Results[0])
			}
			for _, bound := range []string{"min", "max"} {
				bnd := bound
				atom := func(v ssa.Value) (bool, bool) {
					bo, ok := v.(*ssa.BinOp)
					if !ok {
						return false, false
					}
					c, isC := bo.X.(*ssa.Call)
					k, isK := bo.Y.(*ssa.Const)
					if !isC || !isK || k.Value == nil {
						return false, false
					}
					b, isB := c.Call.Value.(*ssa.Builtin)
					if !isB || b.Name() != "len" || !strings.HasSuffix(ssax.Path(c.Call.Args[0]), "."+bnd) {
						return false, false
					}
					// len(x) is 0 in this world
					switch bo.Op {
					case token.EQL:
						return k.Int64() == 0, true
					case token.NEQ:
						return k.Int64() != 0, true
					case token.GTR:
						return 0 > k.Int64(), true
					case token.LSS:
						return 0 < k.Int64(), true
					}
					return false, false
				}
				construct := fmt.Sprintf("%s: no skip when the recorded %s of the tag is empty", ssax.FuncName(f), bnd)
				if tgt, path, found := worldSearch(f, nil, skip, atom); found {
					r.Violate(rule, construct, r.pos(tgt), fmt.Sprintf("with an empty %s the function can still answer 'skip' (blocks %s): an empty bound compares below every 8-byte value, so every range condition prunes every block the merger rewrote and the query returns nothing from merged parts", bnd, blocksStr(path)))
				} else {
					r.Hold(rule, construct, r.fpos(f), "")
				}
			}
		}

		// stream element index: the matched element ids and the matched timestamps are accumulated together
		if f := r.fn("c08.search-lists-together", sibS.pkg, "(*elementIndex).Search"); f != nil {
			rule := "c08.search-lists-together"
			construct := ssax.FuncName(f) + ": every series whose ids are merged into the result has its timestamps merged too"
			var exec *ssa.Call
			for _, in := range ssax.Find(f, ssax.CallTo("iface:(pkg/index.Filter).Execute")) {
				exec = in.(*ssa.Call)
			}
			// the two accumulators: loop-header phis of type posting.List fed (on some edge) by result #0 / #1 of Execute
			var pr, pt *ssa.Phi
			fedBy := func(p *ssa.Phi, idx int) bool {
				seen := map[ssa.Value]bool{}
				var walk func(v ssa.Value, d int) bool
				walk = func(v ssa.Value, d int) bool {
					if v == nil || seen[v] || d > 8 {
						return false
					}
					seen[v] = true
					switch x := v.(type) {
					case *ssa.Extract:
						return exec != nil && x.Tuple == ssa.Value(exec) && x.Index == idx
					case *ssa.Phi:
						for _, e := range x.Edges {
							if walk(e, d+1) {
								return true
							}
						}
					}
					return false
				}
				return walk(p, 0)
			}
			for _, b := range f.Blocks {
				if !isLoopHeader(b) {
					continue
				}
				for _, in := range b.Instrs {
					if p, ok := in.(*ssa.Phi); ok && strings.HasSuffix(p.Type().String(), "posting.List") {
						if pr == nil && fedBy(p, 0) {
							pr = p
						} else if pt == nil && fedBy(p, 1) {
							pt = p
						}
					}
				}
			}
			if exec == nil || pr == nil || pt == nil || pr.Block() != pt.Block() {
				r.Undecide(rule, construct, r.fpos(f), "Execute call or the two accumulators not found in one loop")
			} else {
				part := func(v ssa.Value, i int) bool {
					ex, ok := v.(*ssa.Extract)
					return ok && ex.Tuple == ssa.Value(exec) && ex.Index == i
				}
				h := pr.Block()
				bad := ""
				n := iterationPaths(h, map[ssa.Value]bool{pr: true, pt: true}, func(path []*ssa.BasicBlock, resolve func(ssa.Value) ssa.Value) {
					var er, et ssa.Value
					for j, q := range h.Preds {
						if q == path[len(path)-2] {
							er, et = pr.Edges[j], pt.Edges[j]
						}
					}
					took := [2]bool{part(resolve(er), 0), part(resolve(et), 1)}
					for _, b := range path[:len(path)-1] {
						for _, in := range b.Instrs {
							c, ok := in.(*ssa.Call)
							if !ok || !c.Call.IsInvoke() || c.Call.Method.Name() != "Union" || len(c.Call.Args) != 1 {
								continue
							}
							for i := 0; i < 2; i++ {
								if part(c.Call.Args[0], i) {
									took[i] = true
								}
							}
						}
					}
					if took[0] != took[1] && bad == "" {
						var idx []int
						for _, b := range path {
							idx = append(idx, b.Index)
						}
						bad = fmt.Sprintf("on the iteration path %s the series' element ids are merged=%v but its timestamps merged=%v", blocksStr(idx), took[0], took[1])
					}
				})
				switch {
				case bad != "":
					r.Violate(rule, construct, r.pos(exec), bad+": the time filter derived from the timestamp list then excludes blocks that hold matching elements of the later series")
				case n == 0:
					r.Undecide(rule, construct, r.fpos(f), "no iteration path")
				default:
					r.Hold(rule, construct, r.pos(exec), fmt.Sprintf("%d iteration paths", n))
				}
			}
		}
		r.Floor(rule2, 12)
	}
}

// partialOperatorDispatch lists dispatchers that deliberately handle a subset, with the reason.
var partialOperatorDispatch = map[string]string{}

func rel(x int) string {
	switch {
	case x < 0:
		return "<"
	case x > 0:
		return ">"
	}
	return "="
}

// pbmSearchInclusive: searchPBM must start at the last primary block whose first key is < the wanted key
// — a series (trace) may straddle a primary-block boundary, so the block BEFORE the first one that starts
// with the key can hold its head. With sort.Search that means: predicate(i) ⇔ key ≤ first[i], result n-1.
func (r *R) pbmSearchInclusive(rule, pkg string) {
	f := r.fn(rule, pkg, "searchPBM")
	if f == nil {
		return
	}
	construct := ssax.FuncName(f) + ": starts at the block before the first one whose first key is >= the wanted key"
	var search *ssa.Call
	for _, in := range ssax.Find(f, ssax.CallTo("sort.Search")) {
		search = in.(*ssa.Call)
	}
	if search == nil {
		r.Undecide(rule, construct, r.fpos(f), "no sort.Search call (a different search would need its own reading)")
		return
	}
	mc, ok := search.Call.Args[1].(*ssa.MakeClosure)
	if !ok {
		r.Undecide(rule, construct, r.pos(search), "predicate is not a function literal")
		return
	}
	pred := mc.Fn.(*ssa.Function)
	// truth of the predicate for key <, ==, > first[i]
	isElem := func(v ssa.Value) bool {
		u, ok := v.(*ssa.UnOp)
		if !ok {
			return false
		}
		fa, ok := u.X.(*ssa.FieldAddr)
		if !ok {
			return false
		}
		_, ok = fa.X.(*ssa.IndexAddr)
		return ok
	}
	var eval func(v ssa.Value, rel int) (bool, bool)
	eval = func(v ssa.Value, rel int) (bool, bool) {
		switch x := v.(type) {
		case *ssa.UnOp:
			if x.Op == token.NOT {
				t, ok := eval(x.X, rel)
				return !t, ok
			}
		case *ssa.BinOp:
			a := rel // key ? elem
			switch {
			case isElem(x.Y) && !isElem(x.X):
			case isElem(x.X) && !isElem(x.Y):
				a = -rel
			default:
				return false, false
			}
			switch x.Op {
			case token.LSS:
				return a < 0, true
			case token.LEQ:
				return a <= 0, true
			case token.GTR:
				return a > 0, true
			case token.GEQ:
				return a >= 0, true
			case token.EQL:
				return a == 0, true
			case token.NEQ:
				return a != 0, true
			}
		case *ssa.Call:
			// strings.Compare(a, b) etc. are not used here; fall through to undecided
		}
		return false, false
	}
	rets := ssax.Find(pred, ssax.IsReturn)
	if len(rets) != 1 || len(rets[0].(*ssa.Return).Results) != 1 {
		r.Undecide(rule, construct, r.fpos(pred), "predicate has more than one return")
		return
	}
	var tt [3]bool
	for i, rel := range []int{-1, 0, 1} {
		t, ok := eval(rets[0].(*ssa.Return).Results[0], rel)
		if !ok {
			r.Undecide(rule, construct, r.fpos(pred), "predicate is not a single comparison of the key with pbmIndex[i].<key>")
			return
		}
		tt[i] = t
	}
	// result slice starts at n-1
	lowOK := false
	for _, in := range ssax.Find(f, func(in ssa.Instruction) bool { _, ok := in.(*ssa.Slice); return ok }) {
		sl := in.(*ssa.Slice)
		if bo, ok := sl.Low.(*ssa.BinOp); ok && bo.Op == token.SUB && bo.X == ssa.Value(search) {
			if k, ok := bo.Y.(*ssa.Const); ok && k.Value != nil && k.Int64() == 1 {
				lowOK = true
			}
		}
	}
	switch {
	case tt != [3]bool{true, true, false}:
		r.Violate(rule, construct, r.fpos(pred), fmt.Sprintf("predicate truth for key <,==,> first[i] is %v, want [true true false]: with a strict comparison the search lands on the last block that STARTS with the key and skips the previous block, whose tail holds the first blocks of that series", tt))
	case !lowOK:
		r.Violate(rule, construct, r.pos(search), "the result does not start at n-1")
	default:
		r.Hold(rule, construct, r.pos(search), "predicate ⇔ key ≤ first[i]; result pbmIndex[n-1:]")
	}
}

// guardFields returns the receiver field paths read by a guard condition (g == 0, !g, g).
func guardFields(v ssa.Value) []string {
	var out []string
	var walk func(v ssa.Value, d int)
	walk = func(v ssa.Value, d int) {
		if d > 3 {
			return
		}
		if p := ssax.Path(v); strings.HasPrefix(p, "recv.") {
			out = append(out, p)
			return
		}
		switch x := v.(type) {
		case *ssa.BinOp:
			walk(x.X, d+1)
			walk(x.Y, d+1)
		case *ssa.UnOp:
			walk(x.X, d+1)
		}
	}
	walk(v, 0)
	return out
}

// probeEncodingPkgs: planner packages whose filter nodes probe per-block tag filters.
var probeEncodingPkgs = []string{"pkg/query/logical/stream", "pkg/query/logical/trace"}
