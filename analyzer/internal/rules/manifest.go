package rules

import (
	"encoding/json"
	"sort"
)

// Pending lists properties for which no check is registered (yet), with the reason shown in MANIFEST.json.
var Pending = map[string]string{}

func init() {
	for _, id := range []string{"C01", "C02", "C03", "C04", "C05", "C06", "C07", "C08", "C09", "C10", "C11", "C12", "C13", "C14", "C15", "C16", "C17", "C18", "C19", "C20"} {
		Pending[id] = "no static rule set has been built and validated for this property yet (see DESIGN.md §4 for the planned structural clauses); not claimed until its check is exact on the unchanged tree"
	}
}

// Manifest renders MANIFEST.json from the registered properties.
func Manifest() []byte {
	sort.Slice(All, func(i, j int) bool { return All[i].ID < All[j].ID })
	var checks []map[string]any
	claimed := map[string]bool{}
	var ids []string
	for _, p := range All {
		claimed[p.ID] = true
		ids = append(ids, p.ID)
		checks = append(checks, map[string]any{
			"property_id":         p.ID,
			"quick_cmd":           "/verif/check.sh " + p.ID + " quick",
			"thorough_cmd":        "/verif/check.sh " + p.ID + " thorough",
			"evidence_file":       "/verif/evidence/" + p.ID + ".json",
			"replay_cmd_template": "/verif/bin/bvcheck -replay {path}",
			"engine":              "bvcheck",
			"technique":           p.Technique,
			"level_claimed": map[string]any{
				"category":   "other",
				"text":       "Static analysis (no execution): decides, for every path of the anchored functions on /repo's current source, these structural necessary conditions of the property — " + p.Decides + " It is not a proof of the behavioural property: " + p.NotDecided,
				"design_ref": "DESIGN.md §4 and Appendix G, " + p.ID,
			},
			"level_note": "Trusted base: go/types, golang.org/x/tools v0.50.0 SSA/CFG/VTA call graph, the pbgen+protoc-gen-go overlay that regenerates api/proto Go code (grpc/validate/gateway stubs opaque), and the per-rule idiom/exception tables in analyzer/internal/rules. Obligations are keyed by rule+construct; an anchor that no longer resolves, an unsupported construct at a decisive point or a rule matching fewer instances than confirmed by hand fails closed. Not decided: " + p.NotDecided,
		})
	}
	var na []map[string]any
	var pend []string
	for id := range Pending {
		if !claimed[id] {
			pend = append(pend, id)
		}
	}
	sort.Strings(pend)
	for _, id := range pend {
		na = append(na, map[string]any{"property_id": id, "reason": Pending[id]})
	}
	m := map[string]any{
		"version":   1,
		"setup_cmd": "/verif/setup.sh",
		"hooks": map[string]any{
			"guard":            "verif",
			"enable":           "none needed: the checks are static and add no hooks or instrumentation to /repo",
			"baseline_off_cmd": "for m in $(cat /w/out/gomods.txt); do MF=$(cd /repo/$m && . /w/out/goenv.sh && gomodflag); (cd /repo/$m && go test $MF -json -vet=off -count=1 -timeout 25m ./...); done",
			"source_commits":   []string{},
			"add_only":         true,
		},
		"engines": []map[string]any{{
			"name":              "bvcheck",
			"path":              "/verif/analyzer",
			"serves_properties": ids,
			"kind_free_text":    "repository-specific static analyzer on go/packages + go/ssa (x/tools v0.50.0): CFG ordering/dominance, acquire/release pairing, confinement (who-may-call, field-write, lock-held, call-graph reachability), table agreement, finite-domain evaluation of comparison-only code; protobuf code regenerated into an overlay by pbgen",
		}},
		"checks":         checks,
		"not_applicable": na,
		"notes":          "All claimed checks are level 'other': each decides named structural necessary conditions of its property by static analysis of /repo's current working tree and says what it does not decide. Verdicts for all properties are computed in one analysis per tree content hash (cached under /verif/.cache, keyed by the hash of every .go/.proto/go.mod/go.sum file, the checker binaries and the tier), so the first invocation takes ~20-60 s and later ones re-emit evidence from that run; any source change invalidates the cache. KNOWN_FINDINGS.txt lists genuine defects recorded or fixed.",
	}
	if na == nil {
		m["not_applicable"] = []map[string]any{}
	}
	b, _ := json.MarshalIndent(m, "", " ")
	return append(b, '\n')
}
