package rules

import (
	"fmt"
	"go/token"
	"go/types"
	"strings"

	"golang.org/x/tools/go/ssa"

	"bvcheck/internal/core"
	"bvcheck/internal/ssax"
)

func init() {
	register(&core.Property{
		ID:    "C13",
		Title: "A trace is stored, returned and sampled as a whole",
		Decides: "sampling fails open: a sampler verdict is used only when Decide returned no error and a mask of the right length, Decide runs under a recover in the chain, and every verdict the merge chain returns on timeout / open circuit / error is the retain-all verdict (or exactly what the worker produced); " +
			"the secondary indexes are pruned with the keep predicate of the very drop set the core merge produced in the same attempt, released only when the attempt ends; a guarded merge is published only when its revalidation still says Publish, otherwise nothing is committed; the evaluation stager's budget flushes (flushBefore / flushAfter) are unreachable while the next block continues the trace staged last; the trace-id primary-block search starts at the block that may hold the head of the trace (predicate: id <= first id; result n-1).; the drop set's insertion and lookup step their open-addressing probe cursor the same way (both wrap)",
		NotDecided: "which traces a sampler selects, whether fragments exist elsewhere (guard precision), how mergeBlocks stages a trace across blocks beyond the two boundary guards decided here, completeness of query-by-trace-id beyond the start of the primary-block search.",
		Technique:  "guarded-return on resolved error/length tests, defining-instruction analysis of returned verdicts, SSA binding identity of the keep closure, world pruning on the Publish flag; relational world pruning on trace-id equality; truth table of the binary-search predicate",
		Run:        runC13,
	})
}

func runC13(c *core.Ctx) {
	r := newR(c)
	const sdk = "pkg/pipeline/sdk"
	// 1. fail-open
	if f := r.fn("c13.fail-open", sdk, "evaluateChainLink"); f != nil {
		rule := "c13.fail-open"
		valid := func(in ssa.Instruction) bool {
			ret, ok := in.(*ssa.Return)
			return ok && len(ret.Results) == 2 && ssax.IsTrue(ssax.Unspill(ret.Results[1], ret))
		}
		isErrTest := func(bo *ssa.BinOp) bool {
			if bo.Op != token.NEQ && bo.Op != token.EQL {
				return false
			}
			return ssax.IsNilConst(bo.Y) && types.Identical(bo.X.Type(), types.Universe.Lookup("error").Type())
		}
		isLenTest := func(bo *ssa.BinOp) bool {
			lx, okx := bo.X.(*ssa.Call)
			ly, oky := bo.Y.(*ssa.Call)
			return okx && oky && ssax.CalleeName(lx.Common()) == "builtin:len" && ssax.CalleeName(ly.Common()) == "builtin:len" && (bo.Op == token.NEQ || bo.Op == token.EQL)
		}
		for _, tc := range []struct {
			name string
			is   func(*ssa.BinOp) bool
		}{{"Decide returned an error / panicked", isErrTest}, {"the keep mask has the wrong length", isLenTest}} {
			found := false
			edge := func(from *ssa.BasicBlock, succ int) bool {
				iff, ok := from.Instrs[len(from.Instrs)-1].(*ssa.If)
				if !ok {
					return true
				}
				bo, ok := iff.Cond.(*ssa.BinOp)
				if !ok || !tc.is(bo) {
					return true
				}
				found = true
				bad := 0 // successor taken when the failure holds
				if bo.Op == token.EQL {
					bad = 1
				}
				return succ == bad
			}
			tgt, _, reach := (ssax.Search{Target: valid, Edge: edge}).From(f, nil)
			construct := ssax.FuncName(f) + ": verdict not used when " + tc.name
			switch {
			case !found:
				r.Violate(rule, construct, r.fpos(f), "the test is missing")
			case reach:
				r.Violate(rule, construct, r.pos(tgt), "the link's verdict is reported valid although "+tc.name+": a failing sampler would decide which traces are dropped")
			default:
				r.Hold(rule, construct, r.fpos(f), "")
			}
		}
		// Decide runs under recover
		okRecover := false
		for _, a := range f.AnonFuncs {
			if len(ssax.Find(a, ssax.CallTo("iface:("+sdk+".Sampler).Decide"))) == 0 {
				continue
			}
			for _, in := range ssax.Find(a, func(in ssa.Instruction) bool { return isDefer(in) }) {
				if mc, ok := in.(*ssa.Defer).Call.Value.(*ssa.MakeClosure); ok {
					if len(ssax.Find(mc.Fn.(*ssa.Function), ssax.CallTo("builtin:recover"))) > 0 {
						okRecover = true
					}
				}
			}
		}
		r.Check(okRecover, rule, ssax.FuncName(f)+": Sampler.Decide is invoked under a deferred recover", r.fpos(f), "a panicking plugin must bypass the link, not abort the merge")
		// other invocations of Sampler.Decide in production code
		allow := map[string]string{
			sdk + ".evaluateChainLink":                                        "the guarded chain link",
			"(*banyand/trace.observedSampler).Decide":                         "telemetry wrapper, itself a Sampler evaluated through the chain",
			sdk + "/sdktest.Run":                                              "plugin conformance test harness",
			"banyand/internal/benchmark/tracefixture.EvaluateSampler":         "benchmark fixture",
			"banyand/internal/benchmark/tracebaseline.evaluateSamplingOracle": "benchmark oracle",
		}
		n := 0
		for _, g := range r.P.ModuleFuncs("banyand", "pkg") {
			for _, in := range ssax.Find(g, ssax.AnyCallTo("iface:("+sdk+".Sampler).Decide")) {
				n++
				outer := g
				for outer.Parent() != nil {
					outer = outer.Parent()
				}
				_, ok := allow[ssax.FuncName(outer)]
				r.Check(ok, "c13.decide-call-sites", "Sampler.Decide invoked in "+ssax.FuncName(outer), r.pos(in), "samplers are only invoked through the fail-open chain link")
			}
		}
		r.Floor("c13.decide-call-sites", 3)
		r.Floor(rule, 3)
	}
	// verdicts returned by the merge chain
	for _, name := range []string{"(*mergeChain).executeObservedInto", "(*mergeChain).handleTimeout"} {
		rule := "c13.retain-all-on-failure"
		f := r.fn(rule, sibT.pkg, name)
		if f == nil {
			continue
		}
		n := 0
		for _, in := range ssax.Find(f, ssax.IsReturn) {
			ret := in.(*ssa.Return)
			if ret.Block() == f.Recover {
				continue // go/ssa's synthetic recover block (only reached when a deferred call recovers; none does here)
			}
			n++
			v := ssax.Unspill(ret.Results[0], ret)
			errv := ssax.Unspill(ret.Results[2], ret)
			kind := "other"
			src := v
			if ex, ok := src.(*ssa.Extract); ok {
				src = ex.Tuple
			}
			switch x := src.(type) {
			case *ssa.Call:
				cn := ssax.CalleeName(x.Common())
				if cn == sibT.pkg+".retainAllVerdict" {
					kind = "retain-all"
				} else if cn == "(*"+sibT.pkg+".mergeChain).handleTimeout" {
					kind = "handleTimeout"
				}
			case *ssa.Select:
				kind = "worker-result"
			case *ssa.UnOp:
				if x.Op == token.ARROW {
					kind = "worker-result"
				}
			}
			construct := fmt.Sprintf("%s: return#%d verdict is retain-all or the worker's result", ssax.FuncName(f), n)
			failing := ssax.DefinitelyNonNil(errv, ret.Block(), 0)
			switch {
			case kind == "other":
				r.Violate(rule, construct, r.pos(ret), "the returned verdict is neither retainAllVerdict(...), handleTimeout(...) nor the value received from the worker")
			case failing && kind == "worker-result":
				r.Violate(rule, construct, r.pos(ret), "an error return carries a sampler verdict instead of retain-all")
			default:
				r.Hold(rule, construct, r.pos(ret), kind)
			}
		}
	}
	r.Floor("c13.retain-all-on-failure", 6)

	// 2. same keep predicate for the secondary index
	if f := r.fn("c13.same-drop-set", sibT.pkg, "(*tsTable).mergePartsThenIntroduceAttempt"); f != nil {
		rule := "c13.same-drop-set"
		core := ssax.Find(f, ssax.CallTo("(*"+sibT.pkg+".tsTable).mergeParts"))
		construct := ssax.FuncName(f) + ": sidx merges use keepEncoded of the drop set returned by the core merge"
		if len(core) != 1 {
			r.Violate(rule, construct, r.fpos(f), fmt.Sprintf("expected one core mergeParts call, found %d", len(core)))
		} else {
			var dropped ssa.Value
			for _, ref := range *core[0].(*ssa.Call).Referrers() {
				if ex, ok := ref.(*ssa.Extract); ok && ex.Index == 1 {
					dropped = ex
				}
			}
			merges := ssax.FindDeep(f, ssax.CallTo("iface:("+sibX.pkg+".SIDX).Merge"))
			ok := dropped != nil && len(merges) > 0
			detail := ""
			for _, m := range merges {
				arg := m.(*ssa.Call).Call.Args[len(m.(*ssa.Call).Call.Args)-1]
				// values that can be the keep argument: through the captured cell
				var cands []ssa.Value
				collectCellValues(arg, &cands, 0)
				for _, cv := range cands {
					switch x := cv.(type) {
					case *ssa.Const:
						if x.Value != nil {
							ok = false
						}
					case *ssa.MakeClosure:
						fn := x.Fn.(*ssa.Function)
						obj, _ := fn.Object().(*types.Func)
						if fn.Synthetic == "" || obj == nil || obj.Name() != "keepEncoded" || len(x.Bindings) != 1 || !sameOrLoadedFrom(x.Bindings[0], dropped) {
							ok = false
							detail = "keep closure is not dropped.keepEncoded of this attempt's drop set"
						}
					default:
						ok = false
						detail = fmt.Sprintf("unexpected keep value %T", cv)
					}
				}
				if len(cands) == 0 {
					ok = false
					detail = "keep argument could not be resolved"
				}
			}
			r.Check(ok, rule, construct, r.pos(core[0]), "index entries are pruned for exactly the traces the core merge dropped "+detail)
			// the drop set is released by defer only
			rel := ssax.FindDeep(f, ssax.AnyCallTo(sibT.pkg+".releaseDroppedTraceIDs"))
			allDefer := len(rel) > 0
			for _, x := range rel {
				if !isDefer(x) {
					allDefer = false
				}
			}
			r.Check(allDefer, rule, ssax.FuncName(f)+": drop set released only when the attempt ends", r.fpos(f), "releaseDroppedTraceIDs is deferred, so the set is alive while the sidx merges run")
		}
	}

	// 3. revalidation before publication
	if f := r.fn("c13.publish-gated", sibT.pkg, "(*tsTable).introduceMerged"); f != nil {
		rule := "c13.publish-gated"
		commit := ssax.CallTo("(*" + sibT.pkg + ".tsTable).commitSnapshotTransaction")
		isPublish := func(v ssa.Value) bool { return strings.HasSuffix(ssax.Path(v), ".Publish") }
		world := func(publish bool) ssax.EdgeFilter {
			return ssax.AndEdges(keepFieldNil("guard", false), func(from *ssa.BasicBlock, succ int) bool {
				iff, ok := from.Instrs[len(from.Instrs)-1].(*ssa.If)
				if !ok {
					return true
				}
				v, neg := iff.Cond, false
				for {
					if u, ok := v.(*ssa.UnOp); ok && u.Op == token.NOT {
						v, neg = u.X, !neg
						continue
					}
					break
				}
				if !isPublish(v) {
					return true
				}
				truth := publish != neg
				if truth {
					return succ == 0
				}
				return succ == 1
			})
		}
		construct := ssax.FuncName(f) + ": a guarded merge is committed only while revalidation.Publish holds"
		if tgt, _, found := (ssax.Search{Target: commit, Edge: world(false)}).From(f, nil); found {
			r.Violate(rule, construct, r.pos(tgt), "the snapshot transaction is committed although the guard's revalidation says not to publish: the merged (sampled) part could drop a trace whose fragments still exist elsewhere")
		} else if _, _, ok := (ssax.Search{Target: commit, Edge: world(true)}).From(f, nil); !ok {
			r.Violate(rule, construct, r.fpos(f), "commit unreachable even when Publish holds")
		} else {
			r.Hold(rule, construct, r.fpos(f), "")
		}
		// the rejected path reports the error and acknowledges without committing
		r.Check(len(ssax.Find(f, ssax.StoreTo(sibT.pkg+".mergerIntroduction.resultErr", nil))) > 0, rule, ssax.FuncName(f)+": rejection is reported through resultErr", r.fpos(f), "")
	}

	// a budget flush of the evaluation stager happens only at a trace boundary: never while the next block
	// (or the pending block) still belongs to the trace staged last — the sampler must see a trace whole
	{
		rule := "c13.flush-at-trace-boundary"
		flush := call("(*" + sibT.pkg + ".traceEvaluationStager).flush")
		isPath := func(p string) func(ssa.Value) bool { return func(v ssa.Value) bool { return ssax.Path(v) == p } }
		for _, spec := range []struct {
			fn, x, y, what string
		}{
			{"(*traceEvaluationStager).flushBefore", "arg0", "recv.lastStagedTraceID", "the next block continues the trace staged last"},
			{"(*traceEvaluationStager).flushAfter", "arg0", "arg1", "the next block continues the trace just completed"},
		} {
			f := r.fn(rule, sibT.pkg, spec.fn)
			if f == nil {
				continue
			}
			construct := ssax.FuncName(f) + ": no flush when " + spec.what
			if len(ssax.Find(f, flush.M)) == 0 {
				r.Undecide(rule, construct, r.fpos(f), "no flush call")
				continue
			}
			if tgt, path, found := (ssax.Search{Target: flush.M, Edge: ssax.RelEdge(isPath(spec.x), isPath(spec.y), 0)}).From(f, nil); found {
				r.Violate(rule, construct, r.pos(tgt), fmt.Sprintf("when %s (%s == %s) the staged chunk is still decided and written (blocks %s): the trace is split over two sampler decisions and can be kept in part and dropped in part", spec.what, spec.x, spec.y, blocksStr(path)))
			} else {
				r.Hold(rule, construct, r.fpos(f), "flush unreachable in the world "+spec.x+" == "+spec.y)
			}
		}
		r.Floor(rule, 2)
	}
	// the drop set is an open-addressing table: insertion (buildIndex) and lookup (keepEncoded) walk the SAME probe
	// sequence — both cursors step (i+1) masked / modulo the table, or neither does
	{
		rule := "c13.dropset-probe-agreement"
		shape := func(f *ssa.Function) (string, string) {
			// the cursor: a loop-header phi used as the index into the slots field
			for _, b := range f.Blocks {
				for _, in := range b.Instrs {
					ia, ok := in.(*ssa.IndexAddr)
					if !ok {
						continue
					}
					p, ok := ia.Index.(*ssa.Phi)
					if !ok || !isLoopHeader(p.Block()) || !flowsFromFieldNamed(ia.X, "slots", 0) && !strings.Contains(ssax.Path(ia.X), "slots") {
						continue
					}
					for j, e := range p.Edges {
						if !p.Block().Dominates(p.Block().Preds[j]) {
							continue // not the back edge
						}
						bo, ok := e.(*ssa.BinOp)
						if !ok {
							return "other", r.pos(in)
						}
						isInc := func(v ssa.Value) bool {
							a, ok := v.(*ssa.BinOp)
							if !ok || a.Op != token.ADD {
								return false
							}
							k, isK := a.Y.(*ssa.Const)
							return a.X == ssa.Value(p) && isK && k.Value != nil && k.Value.ExactString() == "1"
						}
						switch {
						case (bo.Op == token.AND || bo.Op == token.REM) && isInc(bo.X):
							return "wrapping (i+1) " + bo.Op.String() + " m", r.pos(in)
						case isInc(bo):
							return "linear i+1", r.pos(in)
						}
						return "other", r.pos(in)
					}
				}
			}
			return "", ""
		}
		fi, fl := r.fn(rule, sibT.pkg, "(*droppedTraceIDs).buildIndex"), r.fn(rule, sibT.pkg, "(*droppedTraceIDs).keepEncoded")
		if fi != nil && fl != nil {
			si, pi := shape(fi)
			sl, pl := shape(fl)
			construct := "droppedTraceIDs: buildIndex and keepEncoded step their probe cursor the same way"
			switch {
			case si == "" || sl == "":
				r.Undecide(rule, construct, r.fpos(fl), "probe cursor over the slots table not found in one of the two functions")
			case si != sl:
				r.Violate(rule, construct, pl, fmt.Sprintf("insertion steps %s (%s) but lookup steps %s (%s): an id displaced past the end of the table by insertion is never found by the lookup, so the core merge drops the trace while the secondary-index merge keeps its entries", si, pi, sl, pl))
			default:
				r.Hold(rule, construct, pl, si)
			}
		}
	}
	// point lookups by trace id start at the primary block that may hold the head of the trace (shared with C08)
	r.pbmSearchInclusive("c13.pbm-search-inclusive", sibT.pkg)
}

// collectCellValues: values that may flow into v through phis and local cells (captured variables).
func collectCellValues(v ssa.Value, out *[]ssa.Value, d int) {
	if v == nil || d > 8 {
		return
	}
	switch x := v.(type) {
	case *ssa.Phi:
		for _, e := range x.Edges {
			collectCellValues(e, out, d+1)
		}
	case *ssa.UnOp:
		if x.Op == token.MUL {
			cell := x.X
			if fv, ok := cell.(*ssa.FreeVar); ok {
				// find the binding in the parent
				fn := fv.Parent()
				for i, f2 := range fn.FreeVars {
					if f2 == fv {
						for _, b := range fn.Parent().Blocks {
							for _, in := range b.Instrs {
								if mc, ok := in.(*ssa.MakeClosure); ok && mc.Fn == fn {
									cell = mc.Bindings[i]
								}
							}
						}
					}
				}
			}
			if al, ok := cell.(*ssa.Alloc); ok {
				for _, ref := range *al.Referrers() {
					if st, ok := ref.(*ssa.Store); ok && st.Addr == al {
						collectCellValues(st.Val, out, d+1)
					}
				}
				return
			}
		}
		*out = append(*out, v)
	default:
		*out = append(*out, v)
	}
}

func sameOrLoadedFrom(v, root ssa.Value) bool {
	if v == root {
		return true
	}
	var cands []ssa.Value
	collectCellValues(v, &cands, 0)
	for _, c := range cands {
		if c == root {
			return true
		}
	}
	// the drop set may itself live in a cell that was assigned from the extract
	if ld, ok := v.(*ssa.UnOp); ok {
		if al, ok := ld.X.(*ssa.Alloc); ok {
			for _, ref := range *al.Referrers() {
				if st, ok := ref.(*ssa.Store); ok && st.Addr == al && st.Val == root {
					return true
				}
			}
		}
	}
	return false
}
