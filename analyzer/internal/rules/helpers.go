// Package rules: the per-property rule instances (slots filled from this repository) built on the engines.
package rules

import (
	"fmt"
	"go/constant"
	"go/token"
	"sort"
	"strings"
	"sync"

	"golang.org/x/tools/go/ssa"

	"bvcheck/internal/core"
	"bvcheck/internal/load"
	"bvcheck/internal/ssax"
)

// All lists the properties in id order.
var All []*core.Property

func register(p *core.Property) { All = append(All, p) }

// R wraps the context with rule-writing helpers.
type R struct {
	*core.Ctx
	P *load.Program
}

func newR(c *core.Ctx) *R { return &R{Ctx: c, P: c.P} }

// NM is a named instruction matcher.
type NM struct {
	Name string
	M    ssax.Matcher
}

func call(names ...string) NM {
	return NM{Name: strings.Join(names, "|"), M: ssax.CallTo(names...)}
}

func anycall(names ...string) NM {
	return NM{Name: strings.Join(names, "|"), M: ssax.AnyCallTo(names...)}
}

// fn resolves a function or records an undecided obligation for rule.
func (r *R) fn(rule, pkg, name string) *ssa.Function {
	f := r.P.Func(pkg, name)
	if f == nil || len(f.Blocks) == 0 {
		r.Undecide(rule, pkg+"."+name, "", "anchor function no longer resolves (renamed, moved or removed): the rule cannot be decided")
		return nil
	}
	r.Stat("functions", 1)
	r.Stat("blocks", len(f.Blocks))
	return f
}

func (r *R) pos(in ssa.Instruction) string {
	if in == nil {
		return ""
	}
	if in.Pos().IsValid() {
		return r.P.Position(in.Pos())
	}
	// fall back to the nearest positioned instruction in the block
	for _, x := range in.Block().Instrs {
		if x.Pos().IsValid() {
			return r.P.Position(x.Pos())
		}
	}
	return r.P.Position(in.Parent().Pos())
}

func (r *R) fpos(fn *ssa.Function) string { return r.P.Position(fn.Pos()) }

func blocksStr(path []int) string {
	var s []string
	for _, b := range path {
		s = append(s, fmt.Sprint(b))
	}
	return "blocks " + strings.Join(s, "→")
}

// mustSeq: on every path of fn from entry to an exit, the steps occur in the given order. One obligation
// per step. Each step must match at least one instruction. Paths ending in panics / no-return calls are
// not exits. edge may prune infeasible or out-of-scope edges.
func (r *R) mustSeq(rule string, fn *ssa.Function, exit NM, edge ssax.EdgeFilter, steps ...NM) bool {
	if fn == nil {
		return false
	}
	ok := true
	name := ssax.FuncName(fn)
	for k, st := range steps {
		prev := "entry"
		var starts []ssa.Instruction
		if k == 0 {
			starts = []ssa.Instruction{nil}
		} else {
			prev = steps[k-1].Name
			starts = ssax.Find(fn, steps[k-1].M)
		}
		construct := fmt.Sprintf("%s: %s ⇒ %s before %s", name, prev, st.Name, exit.Name)
		if len(ssax.Find(fn, st.M)) == 0 {
			r.Violate(rule, construct, r.fpos(fn), "no instruction matching step "+st.Name+" found in the function")
			ok = false
			continue
		}
		bad := false
		for _, s := range starts {
			tgt, path, found := ssax.Search{Target: exit.M, Avoid: st.M, Edge: edge}.From(fn, s)
			if found {
				from := "function entry"
				if s != nil {
					from = prev + " at " + r.pos(s)
				}
				r.Violate(rule, construct, r.pos(tgt), fmt.Sprintf("exit at %s is reachable from %s without passing %s (%s)", r.pos(tgt), from, st.Name, blocksStr(path)))
				bad = true
				ok = false
				break
			}
		}
		if !bad {
			r.Hold(rule, construct, r.fpos(fn), fmt.Sprintf("%d start point(s), all paths to %s pass %s", len(starts), exit.Name, st.Name))
		}
		r.Stat("path_queries", len(starts))
	}
	return ok
}

// neverAfter: once an instruction matching a has executed, no instruction matching b can execute.
func (r *R) neverAfter(rule string, fn *ssa.Function, a, b NM, edge ssax.EdgeFilter) bool {
	if fn == nil {
		return false
	}
	construct := fmt.Sprintf("%s: no %s after %s", ssax.FuncName(fn), b.Name, a.Name)
	as := ssax.Find(fn, a.M)
	if len(as) == 0 {
		r.Violate(rule, construct, r.fpos(fn), "no instruction matching "+a.Name)
		return false
	}
	for _, s := range as {
		tgt, path, found := ssax.Search{Target: b.M, Edge: edge}.From(fn, s)
		if found {
			r.Violate(rule, construct, r.pos(tgt), fmt.Sprintf("%s at %s is reachable after %s at %s (%s)", b.Name, r.pos(tgt), a.Name, r.pos(s), blocksStr(path)))
			return false
		}
	}
	r.Stat("path_queries", len(as))
	r.Hold(rule, construct, r.fpos(fn), fmt.Sprintf("%d occurrence(s) of %s checked", len(as), a.Name))
	return true
}

// neverBefore: no instruction matching b is reachable from entry without first executing one matching a.
func (r *R) neverBefore(rule string, fn *ssa.Function, a, b NM, edge ssax.EdgeFilter) bool {
	if fn == nil {
		return false
	}
	construct := fmt.Sprintf("%s: %s only after %s", ssax.FuncName(fn), b.Name, a.Name)
	if len(ssax.Find(fn, b.M)) == 0 {
		r.Violate(rule, construct, r.fpos(fn), "no instruction matching "+b.Name)
		return false
	}
	tgt, path, found := ssax.Search{Target: b.M, Avoid: a.M, Edge: edge}.From(fn, nil)
	r.Stat("path_queries", 1)
	if found {
		r.Violate(rule, construct, r.pos(tgt), fmt.Sprintf("%s at %s is reachable from entry without %s (%s)", b.Name, r.pos(tgt), a.Name, blocksStr(path)))
		return false
	}
	r.Hold(rule, construct, r.fpos(fn), "every path to "+b.Name+" passes "+a.Name)
	return true
}

var exitAny = NM{"return", ssax.IsReturn}

func exitOK(fn *ssa.Function) NM { return NM{"success-return", ssax.SuccessExit(fn)} }

// ---- "definitely calls" summaries -------------------------------------------------------------------

type mustCallKey struct {
	fn     *ssa.Function
	target string
}

var (
	mustCallMu   sync.Mutex
	mustCallMemo = map[mustCallKey]int{} // 0 unknown, 1 yes, 2 no, 3 in progress
)

// definitelyCalls: every path from f's entry to a success exit executes a call matching one of targets,
// directly or through a static callee for which the same holds (depth-bounded).
func definitelyCalls(f *ssa.Function, targets []string, depth int) bool {
	if f == nil || len(f.Blocks) == 0 || depth < 0 {
		return false
	}
	key := mustCallKey{f, strings.Join(targets, "|")}
	mustCallMu.Lock()
	st := mustCallMemo[key]
	if st == 0 {
		mustCallMemo[key] = 3
	}
	mustCallMu.Unlock()
	switch st {
	case 1:
		return true
	case 2, 3:
		return false
	}
	m := callReaching(targets, depth-1)
	_, _, found := ssax.Search{Target: ssax.SuccessExit(f), Avoid: m}.From(f, nil)
	mustCallMu.Lock()
	if found {
		mustCallMemo[key] = 2
	} else {
		mustCallMemo[key] = 1
	}
	mustCallMu.Unlock()
	return !found
}

// callReaching matches calls to one of targets or to a static callee that definitely calls one.
func callReaching(targets []string, depth int) ssax.Matcher {
	direct := ssax.CallTo(targets...)
	return func(in ssa.Instruction) bool {
		if direct(in) {
			return true
		}
		c, ok := in.(*ssa.Call)
		if !ok || depth < 0 {
			return false
		}
		if callee := c.Common().StaticCallee(); callee != nil && len(callee.Blocks) > 0 {
			return definitelyCalls(callee, targets, depth)
		}
		return false
	}
}

func reaching(depth int, targets ...string) NM {
	return NM{Name: "⇝" + strings.Join(targets, "|"), M: callReaching(targets, depth)}
}

// callersOf lists the call instructions (Call/Defer/Go) in module source functions whose static callee is fn.
func (r *R) callersOf(fn *ssa.Function) []ssa.Instruction {
	return r.P.Index().CallSites[fn]
}

func sortedKeys[V any](m map[string]V) []string {
	var ks []string
	for k := range m {
		ks = append(ks, k)
	}
	sort.Strings(ks)
	return ks
}

// whoMayCall: every static call site of target (in the module) lies in a function whose name is in allow
// (a nested closure counts as its outermost named function).
func (r *R) whoMayCall(rule string, target *ssa.Function, allow []string) {
	if target == nil {
		return
	}
	sites := r.callersOf(target)
	construct := "callers of " + ssax.FuncName(target)
	allowed := map[string]bool{}
	for _, a := range allow {
		allowed[a] = true
	}
	okAll := true
	seen := map[string]bool{}
	for _, s := range sites {
		outer := s.Parent()
		for outer.Parent() != nil {
			outer = outer.Parent()
		}
		n := ssax.FuncName(outer)
		seen[n] = true
		if !allowed[n] {
			r.Violate(rule, construct+" ∌ "+n, r.pos(s), fmt.Sprintf("%s is called from %s, which is not in the allow-set {%s}", ssax.FuncName(target), n, strings.Join(allow, ", ")))
			okAll = false
		}
	}
	r.Stat("call_sites", len(sites))
	if okAll {
		r.Hold(rule, construct, r.fpos(target), fmt.Sprintf("%d call site(s), all in {%s}", len(sites), strings.Join(sortedKeys(seen), ", ")))
	}
	// the function must not escape as a value (method value / callback) outside the allow-set
	for _, s := range r.P.Index().ValueRefs[target] {
		outer := s.Parent()
		for outer.Parent() != nil {
			outer = outer.Parent()
		}
		n := ssax.FuncName(outer)
		if !allowed[n] {
			r.Violate(rule, construct+" ∌ value-ref in "+n, r.pos(s), fmt.Sprintf("%s is taken as a function value in %s, outside the allow-set", ssax.FuncName(target), n))
		}
	}
}

// pairedLoopUpdate: phis named a and b are loop-carried variables of the same loop; on every acyclic path
// through one iteration, if a's value changes then b's value changes too (the two cursors move together).
func (r *R) pairedLoopUpdate(rule string, fn *ssa.Function, a, b, why string) {
	r.pairedLoopUpdateSel(rule, fn, a, b, func(p *ssa.Phi) bool { return p.Comment == a }, func(p *ssa.Phi) bool { return p.Comment == b }, why)
}

// isLoopHeader: b has a predecessor it dominates (a back edge).
func isLoopHeader(b *ssa.BasicBlock) bool {
	for _, p := range b.Preds {
		if b.Dominates(p) {
			return true
		}
	}
	return false
}

// pairedLoopUpdateSel is pairedLoopUpdate with the two loop-carried variables selected semantically (by what
// flows into them) instead of by their source names; a and b are only labels for the report.
func (r *R) pairedLoopUpdateSel(rule string, fn *ssa.Function, a, b string, selA, selB func(*ssa.Phi) bool, why string) {
	construct := fmt.Sprintf("%s: loop updates %s ⇒ updates %s", ssax.FuncName(fn), a, b)
	var pa, pb *ssa.Phi
	for _, blk := range fn.Blocks {
		if !isLoopHeader(blk) {
			continue
		}
		for _, in := range blk.Instrs {
			if p, ok := in.(*ssa.Phi); ok {
				if pa == nil && selA(p) {
					pa = p
				}
				if pb == nil && selB(p) && p != pa {
					pb = p
				}
			}
		}
	}
	if pa == nil || pb == nil || pa.Block() != pb.Block() {
		r.Undecide(rule, construct, r.fpos(fn), "loop-carried variables not found in one loop header")
		return
	}
	h := pa.Block()
	// blocks of the loop: those from which h is reachable and that h dominates
	inLoop := map[*ssa.BasicBlock]bool{}
	var mark func(b *ssa.BasicBlock)
	mark = func(b *ssa.BasicBlock) {
		if inLoop[b] || !h.Dominates(b) {
			return
		}
		inLoop[b] = true
		for _, p := range b.Preds {
			mark(p)
		}
	}
	for _, p := range h.Preds {
		if h.Dominates(p) {
			mark(p)
		}
	}
	inLoop[h] = true
	resolve := func(v ssa.Value, path []*ssa.BasicBlock) ssa.Value {
		for depth := 0; depth < 32; depth++ {
			p, ok := v.(*ssa.Phi)
			if !ok || p == pa || p == pb {
				return v
			}
			// position of p's block on the path and its predecessor there
			idx := -1
			for i := len(path) - 1; i >= 1; i-- {
				if path[i] == p.Block() {
					idx = i
					break
				}
			}
			if idx < 1 {
				return v
			}
			pred := path[idx-1]
			found := false
			for j, q := range p.Block().Preds {
				if q == pred {
					v = p.Edges[j]
					found = true
					break
				}
			}
			if !found {
				return v
			}
		}
		return v
	}
	npaths, bad := 0, ""
	var walk func(path []*ssa.BasicBlock)
	walk = func(path []*ssa.BasicBlock) {
		if npaths > 20000 || bad != "" {
			return
		}
		cur := path[len(path)-1]
		for _, in := range cur.Instrs {
			if ssax.IsNoReturn(in) {
				return
			}
		}
		for _, s := range cur.Succs {
			if s == h {
				npaths++
				full := append(append([]*ssa.BasicBlock(nil), path...), h)
				var ea, eb ssa.Value
				for j, q := range h.Preds {
					if q == cur {
						ea, eb = pa.Edges[j], pb.Edges[j]
					}
				}
				va, vb := resolve(ea, full), resolve(eb, full)
				if va != ssa.Value(pa) && vb == ssa.Value(pb) {
					var idx []int
					for _, bb := range full {
						idx = append(idx, bb.Index)
					}
					bad = fmt.Sprintf("on the iteration path %s, %s is reassigned but %s keeps its previous value", blocksStr(idx), a, b)
				}
				continue
			}
			if !inLoop[s] {
				continue
			}
			onPath := false
			for _, q := range path {
				if q == s {
					onPath = true
				}
			}
			if onPath {
				continue
			}
			walk(append(path, s))
		}
	}
	walk([]*ssa.BasicBlock{h})
	r.Stat("loop_iteration_paths", npaths)
	switch {
	case bad != "":
		r.Violate(rule, construct, r.pos(pa), bad+": "+why)
	case npaths == 0:
		r.Undecide(rule, construct, r.fpos(fn), "no iteration path found")
	default:
		r.Hold(rule, construct, r.pos(pa), fmt.Sprintf("%d iteration paths enumerated", npaths))
	}
}

// condCall returns the call that an If condition consists of (through !) and whether it is negated.
func condCall(v ssa.Value) (*ssa.Call, bool) {
	neg := false
	for {
		if u, ok := v.(*ssa.UnOp); ok && u.Op == token.NOT {
			neg = !neg
			v = u.X
			continue
		}
		break
	}
	c, _ := v.(*ssa.Call)
	return c, neg
}

// onlyWhenCall: every instruction matching target is reachable only through the outcome `want` of an If
// whose condition is a call to callee accepted by argOK. One obligation.
func (r *R) onlyWhenCall(rule string, fn *ssa.Function, target NM, callee string, want bool, argOK func(*ssa.Call) bool, why string) bool {
	if fn == nil {
		return false
	}
	construct := fmt.Sprintf("%s: %s only when %s is %v", ssax.FuncName(fn), target.Name, callee, want)
	if len(ssax.Find(fn, target.M)) == 0 {
		r.Violate(rule, construct, r.fpos(fn), "no instruction matching "+target.Name)
		return false
	}
	nguards := 0
	edge := func(from *ssa.BasicBlock, succ int) bool {
		iff, ok := from.Instrs[len(from.Instrs)-1].(*ssa.If)
		if !ok {
			return true
		}
		c, neg := condCall(iff.Cond)
		if c == nil || ssax.CalleeName(c.Common()) != callee || (argOK != nil && !argOK(c)) {
			return true
		}
		nguards++
		w := want != neg // outcome of the If condition that corresponds to callee()==want
		if w {
			return succ != 0 // drop the edge where the predicate holds as wanted
		}
		return succ != 1
	}
	tgt, path, found := (ssax.Search{Target: target.M, Edge: edge}).From(fn, nil)
	if nguards == 0 {
		r.Violate(rule, construct, r.fpos(fn), "no branch on "+callee+" with the expected operands found: "+why)
		return false
	}
	if found {
		r.Violate(rule, construct, r.pos(tgt), fmt.Sprintf("%s at %s is reachable without %s being %v (%s): %s", target.Name, r.pos(tgt), callee, want, blocksStr(path), why))
		return false
	}
	r.Hold(rule, construct, r.fpos(fn), "control-dependent on the predicate")
	return true
}

// condReadsField: the If condition v reads (through comparisons and loads) a struct field called name.
func condReadsField(v ssa.Value, name string, d int) bool {
	if d > 4 || v == nil {
		return false
	}
	if f := ssax.FieldOf(v); f != nil && f.Name() == name {
		return true
	}
	switch x := v.(type) {
	case *ssa.BinOp:
		return condReadsField(x.X, name, d+1) || condReadsField(x.Y, name, d+1)
	case *ssa.UnOp:
		return condReadsField(x.X, name, d+1)
	}
	return false
}

// innermostLoopHeader returns the header of the innermost natural loop containing b, or nil.
func innermostLoopHeader(b *ssa.BasicBlock) *ssa.BasicBlock {
	reaches := func(from, to *ssa.BasicBlock) bool {
		seen := map[*ssa.BasicBlock]bool{}
		var dfs func(x *ssa.BasicBlock) bool
		dfs = func(x *ssa.BasicBlock) bool {
			if x == to {
				return true
			}
			if seen[x] || !to.Dominates(x) {
				return false
			}
			seen[x] = true
			for _, s := range x.Succs {
				if dfs(s) {
					return true
				}
			}
			return false
		}
		for _, s := range from.Succs {
			if dfs(s) {
				return true
			}
		}
		return false
	}
	for h := b; h != nil; h = h.Idom() {
		if reaches(b, h) {
			return h
		}
	}
	return nil
}

// accumulatorsIndependent: inside a loop, an iteration that updates the accumulator field a still evaluates
// the test of the sibling accumulator field b (before or after): the two are running extrema of the same
// sequence and one value may move both (the first one always does).
func (r *R) accumulatorsIndependent(rule string, fn *ssa.Function, a, b, why string) {
	if fn == nil {
		return
	}
	construct := fmt.Sprintf("%s: an iteration that updates %s also tests %s", ssax.FuncName(fn), a, b)
	n := 0
	for _, blk := range fn.Blocks {
		for _, in := range blk.Instrs {
			st, ok := in.(*ssa.Store)
			if !ok {
				continue
			}
			if f := ssax.FieldOf(st.Addr); f == nil || f.Name() != a {
				continue
			}
			h := innermostLoopHeader(blk)
			if h == nil {
				continue
			}
			n++
			isTest := func(x ssa.Instruction) bool {
				iff, ok := x.(*ssa.If)
				return ok && condReadsField(iff.Cond, b, 0)
			}
			before := false
			for _, tb := range fn.Blocks {
				if tb != h && h.Dominates(tb) && tb.Dominates(blk) && tb != blk && isTest(tb.Instrs[len(tb.Instrs)-1]) && innermostLoopHeader(tb) == h {
					before = true
				}
			}
			if before {
				continue
			}
			again := func(x ssa.Instruction) bool { return x == h.Instrs[0] || ssax.IsReturn(x) }
			if tgt, path, found := (ssax.Search{Target: again, Avoid: isTest}).From(fn, in); found {
				r.Violate(rule, construct, r.pos(in), fmt.Sprintf("after %s is updated at %s the iteration can end (%s, blocks %s) without the test of %s: %s", a, r.pos(in), r.pos(tgt), blocksStr(path), b, why))
				return
			}
		}
	}
	if n == 0 {
		r.Undecide(rule, construct, r.fpos(fn), "no in-loop store to "+a+" found")
		return
	}
	r.Hold(rule, construct, r.fpos(fn), fmt.Sprintf("%d in-loop update site(s)", n))
}

// iterationPaths enumerates the acyclic paths of one iteration of the natural loop headed by h (from h back
// to h) and calls visit with the block sequence (h first, h last) and a resolver that maps a phi of h's
// back-edge operand to the value it has at the end of that path. Paths through no-return calls are skipped.
func iterationPaths(h *ssa.BasicBlock, stop map[ssa.Value]bool, visit func(path []*ssa.BasicBlock, resolve func(ssa.Value) ssa.Value)) int {
	inLoop := map[*ssa.BasicBlock]bool{}
	var mark func(b *ssa.BasicBlock)
	mark = func(b *ssa.BasicBlock) {
		if inLoop[b] || !h.Dominates(b) {
			return
		}
		inLoop[b] = true
		for _, p := range b.Preds {
			mark(p)
		}
	}
	for _, p := range h.Preds {
		if h.Dominates(p) {
			mark(p)
		}
	}
	inLoop[h] = true
	n := 0
	var walk func(path []*ssa.BasicBlock)
	walk = func(path []*ssa.BasicBlock) {
		if n > 20000 {
			return
		}
		cur := path[len(path)-1]
		for _, in := range cur.Instrs {
			if ssax.IsNoReturn(in) {
				return
			}
		}
		for _, s := range cur.Succs {
			if s == h {
				n++
				full := append(append([]*ssa.BasicBlock(nil), path...), h)
				resolve := func(v ssa.Value) ssa.Value {
					for depth := 0; depth < 32; depth++ {
						p, ok := v.(*ssa.Phi)
						if !ok || stop[p] {
							return v
						}
						idx := -1
						for i := len(full) - 1; i >= 1; i-- {
							if full[i] == p.Block() {
								idx = i
								break
							}
						}
						if idx < 1 {
							return v
						}
						found := false
						for j, q := range p.Block().Preds {
							if q == full[idx-1] {
								v = p.Edges[j]
								found = true
								break
							}
						}
						if !found {
							return v
						}
					}
					return v
				}
				visit(full, resolve)
				continue
			}
			if !inLoop[s] {
				continue
			}
			on := false
			for _, q := range path {
				if q == s {
					on = true
				}
			}
			if !on {
				walk(append(path, s))
			}
		}
	}
	walk([]*ssa.BasicBlock{h})
	return n
}

// errorNeverSwallowed: for the call site (whose last result is an error), in the world "that error is
// non-nil" no success exit of fn — and no further loop iteration — is reachable. The error value is followed
// through phis along each explored path (state = the set of SSA values known to hold it), so re-assignment
// into an outer `err` variable is understood while a shadowed copy that nobody looks at is not.
func (r *R) errorNeverSwallowed(rule string, fn *ssa.Function, site *ssa.Call, why string) {
	ord := 0
	for _, in := range ssax.Find(fn, func(in ssa.Instruction) bool {
		c, ok := in.(*ssa.Call)
		return ok && ssax.CalleeName(c.Common()) == ssax.CalleeName(site.Common())
	}) {
		ord++
		if in == ssa.Instruction(site) {
			break
		}
	}
	construct := fmt.Sprintf("%s: error of %s (call #%d) is never swallowed", ssax.FuncName(fn), ssax.CalleeName(site.Common()), ord)
	var e ssa.Value
	n := site.Common().Signature().Results().Len()
	if n == 1 {
		e = site
	} else if refs := site.Referrers(); refs != nil {
		for _, ref := range *refs {
			if ex, ok := ref.(*ssa.Extract); ok && ex.Index == n-1 {
				e = ex
			}
		}
	}
	if e == nil {
		r.Violate(rule, construct, r.pos(site), "the error result is discarded: "+why)
		return
	}
	okExit := ssax.SuccessExit(fn)
	h := innermostLoopHeader(site.Block())
	type state struct {
		b *ssa.BasicBlock
		k string
	}
	seen := map[state]bool{}
	key := func(H map[ssa.Value]bool) string {
		var ks []string
		for v := range H {
			ks = append(ks, v.Name())
		}
		sort.Strings(ks)
		return strings.Join(ks, ",")
	}
	bad, badPath := ssa.Instruction(nil), []int(nil)
	var walk func(b *ssa.BasicBlock, from int, H map[ssa.Value]bool, path []int)
	walk = func(b *ssa.BasicBlock, from int, H map[ssa.Value]bool, path []int) {
		if bad != nil {
			return
		}
		for i := from; i < len(b.Instrs); i++ {
			in := b.Instrs[i]
			if ssax.IsNoReturn(in) {
				return
			}
			if ret, ok := in.(*ssa.Return); ok {
				if okExit(ret) {
					// a success return that hands the error itself out is not a success
					for _, res := range ret.Results {
						if H[res] {
							return
						}
					}
					bad, badPath = in, path
				}
				return
			}
		}
		iff, isIf := b.Instrs[len(b.Instrs)-1].(*ssa.If)
		for si, s := range b.Succs {
			if isIf {
				if bo, ok := iff.Cond.(*ssa.BinOp); ok && (bo.Op == token.EQL || bo.Op == token.NEQ) {
					var held bool
					if H[bo.X] && ssax.IsNilConst(bo.Y) || H[bo.Y] && ssax.IsNilConst(bo.X) {
						held = true
					}
					if held {
						nonNilEdge := 0
						if bo.Op == token.EQL {
							nonNilEdge = 1
						}
						if si != nonNilEdge {
							continue
						}
					}
				}
			}
			if h != nil && s == h {
				// next iteration with the error still unreported
				bad, badPath = s.Instrs[0], path
				return
			}
			H2 := map[ssa.Value]bool{}
			for v := range H {
				H2[v] = true
			}
			for _, in := range s.Instrs {
				p, ok := in.(*ssa.Phi)
				if !ok {
					break
				}
				for j, q := range s.Preds {
					if q == b {
						if H[p.Edges[j]] {
							H2[p] = true
						} else {
							delete(H2, p)
						}
					}
				}
			}
			st := state{s, key(H2)}
			if seen[st] {
				continue
			}
			seen[st] = true
			walk(s, 0, H2, append(append([]int(nil), path...), s.Index))
		}
	}
	idx := 0
	for i, in := range site.Block().Instrs {
		if in == ssa.Instruction(site) {
			idx = i + 1
		}
	}
	walk(site.Block(), idx, map[ssa.Value]bool{e: true}, []int{site.Block().Index})
	if bad != nil {
		r.Violate(rule, construct, r.pos(site), fmt.Sprintf("with a non-nil error from this call, control reaches %s (blocks %s) as if it had succeeded: %s", r.pos(bad), blocksStr(badPath), why))
		return
	}
	r.Hold(rule, construct, r.pos(site), "")
}

// worldSearch explores the paths of fn from `from` (nil = entry) under a hypothetical world given by atom —
// atom(v) returns (truth, true) for the comparisons the world decides — and reports the first instruction
// matching target that is reachable. Unlike an EdgeFilter it carries a value environment along each path:
// boolean phis take the value of the edge they were entered through and `!x` is evaluated, so a condition
// that was computed earlier (isArr := a == K1 || a == K2 … if cond && !isArr) is still decided.
func worldSearch(fn *ssa.Function, from ssa.Instruction, target ssax.Matcher, atom func(ssa.Value) (bool, bool)) (ssa.Instruction, []int, bool) {
	return worldSearchAvoid(fn, from, target, nil, atom)
}

// worldSearchAvoid is worldSearch with paths cut at instructions matching avoid.
func worldSearchAvoid(fn *ssa.Function, from ssa.Instruction, target, avoid ssax.Matcher, atom func(ssa.Value) (bool, bool)) (ssa.Instruction, []int, bool) {
	type state struct {
		b *ssa.BasicBlock
		k string
	}
	var eval func(v ssa.Value, env map[ssa.Value]bool, d int) (bool, bool)
	eval = func(v ssa.Value, env map[ssa.Value]bool, d int) (bool, bool) {
		if d > 6 || v == nil {
			return false, false
		}
		if t, ok := env[v]; ok {
			return t, true
		}
		if k, ok := v.(*ssa.Const); ok && k.Value != nil && k.Value.Kind() == constant.Bool {
			return constant.BoolVal(k.Value), true
		}
		if t, ok := atom(v); ok {
			return t, true
		}
		if u, ok := v.(*ssa.UnOp); ok && u.Op == token.NOT {
			t, ok := eval(u.X, env, d+1)
			return !t, ok
		}
		return false, false
	}
	key := func(env map[ssa.Value]bool) string {
		var ks []string
		for v, t := range env {
			ks = append(ks, fmt.Sprintf("%s=%v", v.Name(), t))
		}
		sort.Strings(ks)
		return strings.Join(ks, ",")
	}
	seen := map[state]bool{}
	var hit ssa.Instruction
	var hitPath []int
	var walk func(b *ssa.BasicBlock, start int, env map[ssa.Value]bool, path []int)
	walk = func(b *ssa.BasicBlock, start int, env map[ssa.Value]bool, path []int) {
		if hit != nil {
			return
		}
		for i := start; i < len(b.Instrs); i++ {
			in := b.Instrs[i]
			if target(in) {
				hit, hitPath = in, path
				return
			}
			if ssax.IsNoReturn(in) || ssax.IsReturn(in) || avoid != nil && avoid(in) {
				return
			}
		}
		iff, isIf := b.Instrs[len(b.Instrs)-1].(*ssa.If)
		for si, s := range b.Succs {
			if isIf {
				if t, ok := eval(iff.Cond, env, 0); ok && (t && si != 0 || !t && si != 1) {
					continue
				}
			}
			env2 := map[ssa.Value]bool{}
			for v, t := range env {
				env2[v] = t
			}
			for _, in := range s.Instrs {
				p, ok := in.(*ssa.Phi)
				if !ok {
					break
				}
				for j, q := range s.Preds {
					if q == b {
						if t, ok := eval(p.Edges[j], env, 0); ok {
							env2[p] = t
						} else {
							delete(env2, p)
						}
					}
				}
			}
			st := state{s, key(env2)}
			if seen[st] {
				continue
			}
			seen[st] = true
			walk(s, 0, env2, append(append([]int(nil), path...), s.Index))
		}
	}
	if fn == nil || len(fn.Blocks) == 0 {
		return nil, nil, false
	}
	b, idx := fn.Blocks[0], 0
	if from != nil {
		b = from.Block()
		for i, in := range b.Instrs {
			if in == from {
				idx = i + 1
			}
		}
	}
	walk(b, idx, map[ssa.Value]bool{}, []int{b.Index})
	return hit, hitPath, hit != nil
}

// relAtom builds a worldSearch atom for "the value selected by isX equals (rel 0) / is less than (-1) /
// greater than (+1) the value selected by isY".
func relAtom(isX, isY func(ssa.Value) bool, rel int) func(ssa.Value) (bool, bool) {
	return func(v ssa.Value) (bool, bool) {
		bo, ok := v.(*ssa.BinOp)
		if !ok {
			return false, false
		}
		r := rel
		switch {
		case isX(bo.X) && isY(bo.Y):
		case isX(bo.Y) && isY(bo.X):
			r = -rel
		default:
			return false, false
		}
		switch bo.Op {
		case token.EQL:
			return r == 0, true
		case token.NEQ:
			return r != 0, true
		case token.LSS:
			return r < 0, true
		case token.LEQ:
			return r <= 0, true
		case token.GTR:
			return r > 0, true
		case token.GEQ:
			return r >= 0, true
		}
		return false, false
	}
}
