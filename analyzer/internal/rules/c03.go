package rules

import (
	"fmt"
	"go/token"
	"strings"

	"golang.org/x/tools/go/ssa"

	"bvcheck/internal/core"
	"bvcheck/internal/ssax"
)

func init() {
	register(&core.Property{
		ID:    "C03",
		Title: "Flush and merge never change what queries return",
		Decides: "the snapshot transition functions (copyAllTo / merge / remove in measure, stream, trace, sidx) take a reference on every part they carry over, start the new snapshot with one reference, and in remove every part is either carried over (with a reference) or marked for removal — none silently vanishes or is carried without a pin; " +
			"the table's snapshot is replaced only by the introduce* functions, which are called only from the table's single introducer loop; every block loaded during a measure/stream merge has its conflicting tag columns renamed before it is used; part-level and primary-block time ranges written by the block writers are running min/max of the blocks they cover (shared with C08); wherever two rows' versions are compared to resolve a duplicate timestamp (mergeTwoBlocks, queryResult.Less, dataPoints.Less) the versions are read at exactly the indices whose timestamps were found equal.",
		NotDecided: "that the merged part's contents equal the version-resolved union of its inputs, block-split boundaries, which of two versions wins, tag-set handling of the fast append path, what a query observes during maintenance.",
		Technique:  "dominance of reference acquisition over carry-over appends, per-iteration path search, who-may-call confinement of the snapshot writer, CFG must-follow; canonical symbolic expression equality of indices under a dominating equality",
		Run:        runC03,
	})
}

func runC03(c *core.Ctx) {
	r := newR(c)
	for _, s := range sibsAll {
		typ := "snapshot"
		acq := []string{"(*" + s.pkg + ".partWrapper).incRef"}
		if s.tag == "X" {
			typ = "Snapshot"
			acq = []string{"(*" + s.pkg + ".partWrapper).acquire"}
		}
		isAcq := ssax.CallTo(acq...)
		for _, name := range []string{"copyAllTo", "merge", "remove"} {
			rule := "c03.transition-refs"
			f := r.fn(rule, s.pkg, "(*"+typ+")."+name)
			if f == nil {
				continue
			}
			fromOld := func(v ssa.Value) bool {
				return strings.Contains(ssax.Path(v), "recv.parts[]") || strings.Contains(ssax.Path(v), "result.parts[]") && s.tag == "X"
			}
			// result.ref = 1
			one := false
			for _, in := range ssax.Find(f, ssax.StoreTo(s.pkg+"."+typ+".ref", nil)) {
				if k, ok := in.(*ssa.Store).Val.(*ssa.Const); ok && k.Value != nil && k.Value.ExactString() == "1" {
					one = true
				}
			}
			r.Check(one, rule, ssax.FuncName(f)+": new snapshot starts with one reference", r.fpos(f), "result.ref = 1")
			if s.tag == "X" && name == "copyAllTo" {
				// copy(result.parts, s.parts) followed by a loop acquiring every element
				r.Check(len(ssax.Find(f, isAcq)) > 0 && len(ssax.Find(f, ssax.CallTo("builtin:copy"))) > 0, rule, ssax.FuncName(f)+": copied parts are acquired", r.fpos(f), "bulk copy followed by an acquire loop")
				continue
			}
			// every carry-over append is dominated by an acquire of the same element
			n := 0
			for _, app := range ssax.Find(f, func(in ssa.Instruction) bool { return len(ssax.AppendedValues(in)) > 0 }) {
				for _, v := range ssax.AppendedValues(app) {
					if !fromOld(v) {
						continue
					}
					n++
					p := ssax.Path(v)
					ok := false
					for _, a := range ssax.Find(f, isAcq) {
						if ssax.Path(a.(*ssa.Call).Call.Args[0]) == p && ssax.Dominates(a, app) {
							ok = true
						}
					}
					r.Check(ok, rule, fmt.Sprintf("%s: carried-over part #%d is pinned before it enters the new snapshot", ssax.FuncName(f), n), r.pos(app), "a part shared by two snapshots without its own reference is released (and its files deleted) when the older snapshot goes away, while queries on the new snapshot still read it")
				}
			}
			if n == 0 {
				r.Violate(rule, ssax.FuncName(f)+": carry-over append", r.fpos(f), "no append of an element of the old snapshot found")
			}
			if name == "remove" {
				mark := ssax.Or(ssax.CallTo("(*"+s.pkg+".partWrapper).markForRemoval"), func(in ssa.Instruction) bool {
					cl, ok := in.(*ssa.Call)
					return ok && ssax.CalleeName(cl.Common()) == "(*sync/atomic.Bool).Store" && strings.HasSuffix(ssax.Path(cl.Call.Args[0]), ".removable") && ssax.IsTrue(cl.Call.Args[1])
				})
				construct := ssax.FuncName(f) + ": every part is carried over or marked removable"
				if len(ssax.Find(f, mark)) == 0 {
					r.Violate(rule, construct, r.fpos(f), "parts dropped from the snapshot are not marked removable: their directories would never be deleted (or, worse, stay listed)")
					continue
				}
				// per iteration: from the membership test, the loop latch is not reachable without append or mark
				var test ssa.Instruction
				for _, b := range f.Blocks {
					for _, in := range b.Instrs {
						if lk, ok := in.(*ssa.Lookup); ok && lk.CommaOk && test == nil {
							test = in
						}
					}
				}
				if test == nil {
					r.Undecide(rule, construct, r.fpos(f), "membership lookup not found")
					continue
				}
				done := ssax.Or(mark, func(in ssa.Instruction) bool {
					for _, v := range ssax.AppendedValues(in) {
						if fromOld(v) {
							return true
						}
					}
					return false
				})
				// sidx: acquire() may fail for a part already being removed — that skip is legitimate
				edge := func(from *ssa.BasicBlock, succ int) bool {
					iff, ok := from.Instrs[len(from.Instrs)-1].(*ssa.If)
					if !ok {
						return true
					}
					if cl, ok := iff.Cond.(*ssa.Call); ok && isAcq(cl) {
						return succ == 0
					}
					return true
				}
				again := func(in ssa.Instruction) bool { return in == test }
				target := func(in ssa.Instruction) bool { return ssax.IsReturn(in) || again(in) }
				if tgt, _, found := (ssax.Search{Target: target, Avoid: done, Edge: edge}).From(f, test); found {
					r.Violate(rule, construct, r.pos(tgt), "an iteration can finish with the part neither carried over nor marked removable")
				} else {
					r.Hold(rule, construct, r.fpos(f), "")
				}
			}
		}
	}
	r.Floor("c03.transition-refs", 24)

	// 2. single writer
	for _, s := range sibsMST {
		rule := "c03.single-writer"
		intro := []string{"introducePart", "introduceFlushed", "introduceMerged", "introduceSync"}
		if s.tag == "T" {
			intro = append(intro, "introduceFlushedForSync")
		}
		var allowIntro []string
		for _, n := range intro {
			allowIntro = append(allowIntro, "(*"+s.pkg+".tsTable)."+n)
		}
		switch s.tag {
		case "T":
			if f := r.fn(rule, s.pkg, "(*tsTable).commitSnapshotTransaction"); f != nil {
				r.whoMayCall(rule, f, allowIntro)
			}
		default:
			if f := r.fn(rule, s.pkg, "(*tsTable).replaceSnapshot"); f != nil {
				r.whoMayCall(rule, f, allowIntro)
			}
		}
		loops := []string{"(*" + s.pkg + ".tsTable).introducerLoop", "(*" + s.pkg + ".tsTable).introducerLoopWithSync"}
		for _, n := range intro {
			if f := r.fn(rule, s.pkg, "(*tsTable)."+n); f != nil {
				r.whoMayCall(rule, f, loops)
			}
		}
		// the snapshot field is written only by the replace function, Close and loadSnapshot
		q := s.pkg + ".tsTable.snapshot"
		okAll, n := true, 0
		for _, f := range r.P.ModuleFuncs(s.pkg) {
			for _, in := range ssax.Find(f, ssax.StoreTo(q, nil)) {
				n++
				fn := ssax.FuncName(f)
				switch fn {
				case "(*" + s.pkg + ".tsTable).replaceSnapshot", "(*" + s.pkg + ".tsTable).ReplaceSnapshot", "(*" + s.pkg + ".tsTable).Close", "(*" + s.pkg + ".tsTable).loadSnapshot":
				default:
					okAll = false
					r.Violate(rule, q+" written in "+fn, r.pos(in), "the table's snapshot pointer is replaced outside the single-writer introduction protocol")
				}
			}
		}
		if okAll {
			r.Hold(rule, q+" writers", "", fmt.Sprintf("%d store(s), all in replaceSnapshot/ReplaceSnapshot/Close/loadSnapshot", n))
		}
	}
	r.Floor("c03.single-writer", 15)

	// 3. conflicting tag columns renamed before a loaded block is used
	for _, s := range []sib{sibM, sibS} {
		rule := "c03.rename-after-load"
		f := r.fn(rule, s.pkg, "mergeBlocks")
		if f == nil {
			continue
		}
		load := ssax.FindDeep(f, func(in ssa.Instruction) bool {
			cl, ok := in.(*ssa.Call)
			return ok && strings.HasSuffix(ssax.CalleeName(cl.Common()), ".loadBlockData")
		})
		ren := func(in ssa.Instruction) bool {
			cl, ok := in.(*ssa.Call)
			if !ok {
				return false
			}
			n := ssax.CalleeName(cl.Common())
			return strings.HasSuffix(n, "renameConflictColumns") || strings.HasSuffix(n, "renameConflictTags")
		}
		construct := ssax.FuncName(f) + ": every loadBlockData is followed by renameConflictColumns"
		if len(load) == 0 {
			r.Undecide(rule, construct, r.fpos(f), "no loadBlockData call found")
			continue
		}
		bad := false
		for _, l := range load {
			g := l.Parent()
			if tgt, _, found := (ssax.Search{Target: func(in ssa.Instruction) bool {
				// "used": handed to the writer / merged / appended before being renamed
				if ssax.IsReturn(in) {
					return true
				}
				cl, ok := in.(*ssa.Call)
				if !ok {
					return false
				}
				n := ssax.CalleeName(cl.Common())
				return strings.HasSuffix(n, ".mustWriteBlock") || strings.HasSuffix(n, ".mergeTwoBlocks") || strings.HasSuffix(n, ".mustWriteLongSeriesBlocks")
			}, Avoid: ren}).From(g, l); found {
				r.Violate(rule, construct, r.pos(l), fmt.Sprintf("the block loaded at %s is used (%s) without renameConflictColumns: a tag whose type differs between parts would be merged under one column and dropped or misread", r.pos(l), r.pos(tgt)))
				bad = true
			}
		}
		if !bad {
			r.Hold(rule, construct, r.fpos(f), fmt.Sprintf("%d load site(s)", len(load)))
		}
	}

	// 4. version tie-break reads the rows whose timestamps were found equal
	versionIndexAgreement(r, "c03.version-index-agreement")
}

// versionIndexAgreement: wherever two rows' versions are compared under a dominating equality of two
// timestamps elements, the versions are read at exactly the (base, index) pairs of those timestamps.
func versionIndexAgreement(r *R, rule string) {
	elemOf := func(v ssa.Value, field string) (string, bool) {
		u, ok := v.(*ssa.UnOp)
		if !ok || u.Op != token.MUL {
			return "", false
		}
		ia, ok := u.X.(*ssa.IndexAddr)
		if !ok {
			return "", false
		}
		var fld ssa.Value
		if l, ok := ia.X.(*ssa.UnOp); ok && l.Op == token.MUL {
			fld = l.X
		} else {
			fld = ia.X
		}
		if fv := ssax.FieldOf(fld); fv == nil || fv.Name() != field {
			return "", false
		}
		return ssax.Canon(ia), true
	}
	pairOf := func(v ssa.Value, field string) ([2]string, bool) {
		bo, ok := v.(*ssa.BinOp)
		if !ok {
			return [2]string{}, false
		}
		a, ok1 := elemOf(bo.X, field)
		b, ok2 := elemOf(bo.Y, field)
		if !ok1 || !ok2 {
			return [2]string{}, false
		}
		if b < a {
			a, b = b, a
		}
		return [2]string{a, b}, true
	}
	for _, f := range r.P.ModuleFuncs(sibM.pkg, sibS.pkg, sibT.pkg, sibX.pkg) {
		for _, b := range f.Blocks {
			for _, in := range b.Instrs {
				bo, ok := in.(*ssa.BinOp)
				if !ok {
					continue
				}
				switch bo.Op {
				case token.LSS, token.GTR, token.LEQ, token.GEQ:
				default:
					continue
				}
				vp, ok := pairOf(bo, "versions")
				if !ok {
					continue
				}
				// dominating equality of two timestamps elements
				var doms [][2]string
				for _, gb := range f.Blocks {
					gif, ok := gb.Instrs[len(gb.Instrs)-1].(*ssa.If)
					if !ok {
						continue
					}
					gc, ok := gif.Cond.(*ssa.BinOp)
					if !ok || gc.Op != token.EQL && gc.Op != token.NEQ {
						continue
					}
					tp, ok := pairOf(gc, "timestamps")
					if !ok {
						continue
					}
					eq := gb.Succs[0]
					if gc.Op == token.NEQ {
						eq = gb.Succs[1]
					}
					if len(eq.Preds) == 1 && (eq == b || eq.Dominates(b)) {
						doms = append(doms, tp)
					}
				}
				if len(doms) == 0 {
					continue
				}
				construct := ssax.FuncName(f) + ": versions compared at the indices whose timestamps were found equal"
				want := [2]string{strings.ReplaceAll(vp[0], ".versions", ".timestamps"), strings.ReplaceAll(vp[1], ".versions", ".timestamps")}
				if want[1] < want[0] {
					want[0], want[1] = want[1], want[0]
				}
				match := false
				for _, d := range doms {
					if d == want {
						match = true
					}
				}
				if match {
					r.Hold(rule, construct, r.pos(in), want[0]+" == "+want[1])
				} else {
					r.Violate(rule, construct, r.pos(in), fmt.Sprintf("the tie-break compares %s with %s, but the rows found to share a timestamp are %s and %s: another row's version decides which duplicate survives the merge", vp[0], vp[1], doms[0][0], doms[0][1]))
				}
			}
		}
	}
	r.Floor(rule, 3)
}
