package rules

import (
	"fmt"
	"go/token"
	"go/types"
	"strings"

	"golang.org/x/tools/go/ssa"

	"bvcheck/internal/cmpeval"
	"bvcheck/internal/core"
	"bvcheck/internal/ssax"
)

func init() {
	register(&core.Property{
		ID:    "C16",
		Title: "Shard and node placement is deterministic and replica-disjoint",
		Decides: "the routing functions (ShardID, TraceShardID, Locator.Locate/Find, ApplyLocators, Hash, Entity.Marshal, the selector's Pick) reach no clock, random source, environment, or map iteration through static calls; the shard id is a remainder by the shard-count parameter on a path where zero has exited; " +
			"every insertion into the selector's node list or lookup table (append or element write) is followed by a sort before the lock is released, both are accessed under the selector mutex, the lookup-table comparator is lex(group↑, shard↑) and the binary-search predicate of Pick is the matching lower bound; node insertion is idempotent (a name already present is not appended again) and table insertion is preceded by removal of the group's entries; the node index is (position+replica) mod the node count, unreachable with zero nodes; in the three liaison write loops a request that switches the metadata also resets the spec and the spec-derived tag locators in the same iteration (the shard of a write does not depend on the stream's history), and the measure sharding-key / entity locators are built from the schema's sharding-key / entity tag names respectively.; the cached sharding-key locator of a measure tracks its current schema (every add-or-update event installs it or removes the stale one); Pick hands its replica parameter to selectNode through an injective image only (never clamped)",
		NotDecided: "distinctness of replicas as arithmetic when fewer nodes than copies, convergence over event orders as a history claim, hash quality, dynamic (interface) callees of the routing functions.",
		Technique:  "static call-graph unreachability of impure sinks; SSA shape of the modulo; CFG must-follow (sort after insert); must-lockset; comparator truth tables; guarded-insert (membership test dominates append); per-iteration path enumeration of paired loop-carried updates (metadata ⇒ spec/locators); SSA def-use of the locator sources",
		Run:        runC16,
	})
}

func runC16(c *core.Ctx) {
	r := newR(c)
	// 0. the locators that pick the entity / sharding-key / trace-id tag positions are a function of the
	// CURRENT metadata: a request that switches the metadata invalidates them in the same iteration
	{
		const lg = "banyand/liaison/grpc"
		why := "the tag positions used to compute the entity (hence the shard) of the following writes still come from the previous resource's schema and spec: the shard depends on the stream's history, not only on (name, entity values, shard count)"
		isMeta := func(p *ssa.Phi) bool {
			return strings.HasSuffix(p.Type().String(), "common/v1.Metadata") && flowsFromCallSuffix(p, ").GetMetadata", 0)
		}
		isSpec := func(p *ssa.Phi) bool {
			t := p.Type().String()
			return (strings.HasSuffix(t, "Spec") || strings.Contains(t, "Spec")) && !strings.Contains(t, "Locator") &&
				(flowsFromCallSuffix(p, ").GetDataPointSpec", 0) || flowsFromCallSuffix(p, ").GetTagFamilySpec", 0) || flowsFromCallSuffix(p, ").GetTagSpec", 0))
		}
		// locator k: a *specLocator / *traceSpecLocator fed by result k of the locator builder
		isLoc := func(k int) func(p *ssa.Phi) bool {
			var from func(v ssa.Value, d int) bool
			from = func(v ssa.Value, d int) bool {
				if d > 12 || v == nil {
					return false
				}
				switch x := v.(type) {
				case *ssa.Extract:
					c, ok := x.Tuple.(*ssa.Call)
					return ok && x.Index == k && strings.Contains(ssax.CalleeName(c.Common()), "SpecLocator")
				case *ssa.Call:
					return k == 0 && strings.Contains(ssax.CalleeName(x.Common()), "SpecLocator")
				case *ssa.Phi:
					if d > 0 && isLoopHeader(x.Block()) {
						return false
					}
					for _, e := range x.Edges {
						if from(e, d+1) {
							return true
						}
					}
				}
				return false
			}
			return func(p *ssa.Phi) bool { return strings.HasSuffix(p.Type().String(), "pecLocator") && from(p, 0) }
		}
		for _, spec := range []struct {
			fn, loc string
			sel     func(*ssa.Phi) bool
		}{
			{"(*traceService).Write", "the trace spec locator", isLoc(0)},
			{"(*traceService).Write", "the tag spec", isSpec},
			{"(*measureService).Write", "the entity spec locator", isLoc(0)},
			{"(*measureService).Write", "the sharding-key spec locator", isLoc(1)},
			{"(*measureService).Write", "the data point spec", isSpec},
			{"(*streamService).Write", "the stream spec locator", isLoc(0)},
			{"(*streamService).Write", "the tag family spec", isSpec},
		} {
			if f := r.fn("c16.locator-follows-metadata", lg, spec.fn); f != nil {
				r.pairedLoopUpdateSel("c16.locator-follows-metadata", f, "the metadata", spec.loc, isMeta, spec.sel, why)
			}
		}
		r.Floor("c16.locator-follows-metadata", 7)
	}
	// 0c. the cached sharding-key locator of a measure tracks its CURRENT schema: every add-or-update event
	// for a measure either installs the locator or removes the stale one
	{
		rule := "c16.sharding-locator-tracks-schema"
		const lg = "banyand/liaison/grpc"
		// OnDelete may skip a measure without a sharding key: by the invariant kept here no entry exists for it
		for _, name := range []string{"OnAddOrUpdate"} {
			f := r.fn(rule, lg, "(*shardingKeyRepo)."+name)
			if f == nil {
				continue
			}
			onMap := func(v ssa.Value) bool {
				fv := ssax.FieldOf(v)
				if fv == nil {
					if u, ok := v.(*ssa.UnOp); ok {
						fv = ssax.FieldOf(u.X)
					}
				}
				return fv != nil && fv.Name() == "shardingKeysMap"
			}
			touch := func(in ssa.Instruction) bool {
				switch x := in.(type) {
				case *ssa.MapUpdate:
					return onMap(x.Map)
				case *ssa.Call:
					if b, ok := x.Call.Value.(*ssa.Builtin); ok && b.Name() == "delete" && len(x.Call.Args) > 0 {
						return onMap(x.Call.Args[0])
					}
				}
				return false
			}
			construct := ssax.FuncName(f) + ": every measure event updates or removes the cached sharding-key locator"
			var start ssa.Instruction
			for _, in := range ssax.Find(f, func(in ssa.Instruction) bool { _, ok := in.(*ssa.TypeAssert); return ok }) {
				start = in
			}
			if start == nil {
				r.Undecide(rule, construct, r.fpos(f), "no type assertion of the event's spec found")
				continue
			}
			if tgt, path, found := (ssax.Search{Target: ssax.IsReturn, Avoid: touch}).From(f, start); found {
				r.Violate(rule, construct, r.pos(tgt), fmt.Sprintf("a measure event can leave the handler at %s (blocks %s) without touching shardingKeysMap: when an update removes the sharding key the old locator stays cached, and this coordinator keeps routing by it while a coordinator that only saw the new schema routes by the entity", r.pos(tgt), blocksStr(path)))
			} else {
				r.Hold(rule, construct, r.fpos(f), "")
			}
		}
		r.Floor(rule, 1)
	}

	// 0d. distinct replica ids must map to distinct node offsets: Pick hands its replica parameter to selectNode
	// unchanged (or through an injective image: a conversion, + constant), never clamped or reduced
	if f := r.fn("c16.replica-index-injective", "pkg/node", "(*roundRobinSelector).Pick"); f != nil {
		rule := "c16.replica-index-injective"
		n := 0
		for _, in := range ssax.Find(f, ssax.CallTo("(*pkg/node.roundRobinSelector).selectNode")) {
			n++
			arg := in.(*ssa.Call).Call.Args[len(in.(*ssa.Call).Call.Args)-1]
			var inj func(v ssa.Value, d int) bool
			inj = func(v ssa.Value, d int) bool {
				if d > 4 {
					return false
				}
				switch x := v.(type) {
				case *ssa.Parameter:
					// the replica id is the last parameter of node.Selector.Pick(group, name, shardID, replicaID)
					return len(f.Params) > 0 && x == f.Params[len(f.Params)-1]
				case *ssa.Convert:
					return inj(x.X, d+1)
				case *ssa.ChangeType:
					return inj(x.X, d+1)
				case *ssa.BinOp:
					if x.Op == token.ADD || x.Op == token.SUB {
						if _, ok := x.Y.(*ssa.Const); ok {
							return inj(x.X, d+1)
						}
					}
				}
				return false
			}
			r.Check(inj(arg, 0), rule, fmt.Sprintf("%s: selectNode#%d receives the replica id itself", ssax.FuncName(f), n), r.pos(in),
				"the replica index is transformed (clamped, reduced, replaced) before it selects the node: several replica ids collapse onto one offset and the copies of a shard land on the same node although enough nodes exist")
		}
		r.Floor(rule, 1)
	}

	// 0b. the spec locators are built from the schema's entity / sharding-key tag names respectively
	if f := r.fn("c16.locator-sources", "banyand/liaison/grpc", "(*measureService).buildSpecLocators"); f != nil {
		rule := "c16.locator-sources"
		want := []string{").GetEntity", ").GetShardingKey"}
		role := []string{"entity", "sharding-key"}
		n := 0
		for _, ret := range ssax.Find(f, ssax.IsReturn) {
			res := ret.(*ssa.Return).Results
			if len(res) != 2 {
				continue
			}
			for i, v := range res {
				var calls []*ssa.Call
				seen := map[ssa.Value]bool{}
				var walk func(v ssa.Value)
				walk = func(v ssa.Value) {
					if v == nil || seen[v] {
						return
					}
					seen[v] = true
					switch x := v.(type) {
					case *ssa.Phi:
						for _, e := range x.Edges {
							walk(e)
						}
					case *ssa.Call:
						if strings.HasSuffix(ssax.CalleeName(x.Common()), ".newSpecLocator") {
							calls = append(calls, x)
						}
					}
				}
				walk(v)
				for _, c := range calls {
					n++
					names := c.Call.Args[1]
					ok := flowsFromCallSuffix(names, want[i], 0) && !flowsFromCallSuffix(names, want[1-i], 0)
					r.Check(ok, rule, fmt.Sprintf("%s: result %d (%s locator) is built from %s", ssax.FuncName(f), i, role[i], want[i][2:]), r.pos(c),
						"the "+role[i]+" locator must locate the "+role[i]+" tags of the schema: built from the other list, spec-framed writes hash different tag values than schema-framed writes of the same point, and two coordinators (or two framings) send one series to two shards")
				}
			}
		}
		r.Floor(rule, 2)
		_ = n
	}

	// 1. purity
	rule := "c16.pure-routing"
	banned := func(n string) bool {
		for _, p := range []string{"time.Now", "time.Since", "math/rand.", "math/rand/v2.", "crypto/rand.", "hash/maphash.", "os.Getenv", "os.Getpid", "os.Hostname", "runtime.NumCPU"} {
			if n == p || strings.HasSuffix(p, ".") && strings.HasPrefix(n, p) {
				return true
			}
		}
		return false
	}
	roots := [][2]string{{"pkg/partition", "ShardID"}, {"pkg/partition", "TraceShardID"}, {"pkg/partition", "Locator.Locate"}, {"pkg/partition", "Locator.Find"}, {"pkg/partition", "ApplyLocators"},
		{"pkg/convert", "Hash"}, {"pkg/convert", "HashStr"}, {"pkg/pb/v1", "Entity.Marshal"}, {"pkg/pb/v1", "EntityValues.ToEntity"}, {"pkg/node", "(*roundRobinSelector).Pick"}, {"pkg/node", "(*roundRobinSelector).selectNode"}}
	for _, rt := range roots {
		f := r.fn(rule, rt[0], rt[1])
		if f == nil {
			continue
		}
		var bad string
		nfun := 0
		check := func(g *ssa.Function) bool {
			nfun++
			for _, b := range g.Blocks {
				for _, in := range b.Instrs {
					if cc := ssax.Common(in); cc != nil {
						if n := ssax.CalleeName(cc); banned(n) {
							bad = fmt.Sprintf("%s calls %s at %s", ssax.FuncName(g), n, r.pos(in))
							return true
						}
					}
					if rg, ok := in.(*ssa.Range); ok {
						if _, isMap := rg.X.Type().Underlying().(*types.Map); isMap {
							bad = fmt.Sprintf("%s iterates a map at %s (iteration order is random)", ssax.FuncName(g), r.pos(in))
							return true
						}
					}
				}
			}
			return false
		}
		path := []string{ssax.FuncName(f)}
		if !check(f) {
			path = r.reach(f, check, func(g *ssa.Function) bool {
				return g.Pkg != nil && strings.HasPrefix(g.Pkg.Pkg.Path(), strings.TrimSuffix(ssax.Module, "/")) && !strings.Contains(g.Pkg.Pkg.Path(), "/pkg/logger")
			})
		}
		if bad != "" {
			r.Violate(rule, ssax.FuncName(f)+" is a pure function of its inputs", r.fpos(f), "routing depends on something other than its arguments: "+strings.Join(path, " → ")+": "+bad)
		} else {
			r.Hold(rule, ssax.FuncName(f)+" is a pure function of its inputs", r.fpos(f), fmt.Sprintf("%d functions reachable through static calls; none reads a clock, random source, environment or map order", nfun))
		}
	}
	r.Floor(rule, 9)

	// 2. shard id = hash mod shardNum
	rule = "c16.modulo-shardnum"
	for _, name := range []string{"ShardID", "TraceShardID"} {
		f := r.fn(rule, "pkg/partition", name)
		if f == nil {
			continue
		}
		var shardNum *ssa.Parameter
		for _, p := range f.Params {
			if bt, ok := p.Type().Underlying().(*types.Basic); ok && bt.Kind() == types.Uint32 {
				shardNum = p
			}
		}
		rems := ssax.Find(f, func(in ssa.Instruction) bool { b, ok := in.(*ssa.BinOp); return ok && b.Op == token.REM })
		construct := "partition." + name + ": result = hash mod shardNum, zero excluded"
		if shardNum == nil || len(rems) != 1 {
			r.Violate(rule, construct, r.fpos(f), "expected one remainder operation and a uint32 shard-count parameter")
			continue
		}
		rem := rems[0].(*ssa.BinOp)
		div := rem.Y // the divisor is the parameter itself, up to conversions
		for {
			if cv, ok := div.(*ssa.Convert); ok {
				div = cv.X
				continue
			}
			if ct, ok := div.(*ssa.ChangeType); ok {
				div = ct.X
				continue
			}
			break
		}
		okDiv := div == ssa.Value(shardNum)
		okHash := flowsFromCallNamed(rem.X, "pkg/convert.Hash", 0)
		_, _, zero := (ssax.Search{Target: func(in ssa.Instruction) bool { return in == rems[0] }, Edge: ssax.WorldEdge(shardNum, 0)}).From(f, nil)
		// every value-returning success path returns the remainder
		okRet := true
		for _, ret := range ssax.Find(f, ssax.SuccessExit(f)) {
			v := ret.(*ssa.Return).Results[0]
			if k, isC := v.(*ssa.Const); isC && k.Value != nil {
				continue // the documented zero-shard fallback
			}
			if !flowsFromValue(v, rem, 0) {
				okRet = false
			}
		}
		r.Check(okDiv && okHash && !zero && okRet, rule, construct, r.pos(rems[0]), fmt.Sprintf("divisor is the shardNum parameter=%v, dividend is convert.Hash=%v, unreachable for shardNum==0=%v, returned=%v", okDiv, okHash, !zero, okRet))
	}
	r.Floor(rule, 2)

	// 3. selector tables: sort after insert, under lock; comparators
	const np = "pkg/node"
	sel := np + ".roundRobinSelector."
	rule = "c16.sorted-after-insert"
	isSort := func(in ssa.Instruction) bool {
		cl, ok := in.(*ssa.Call)
		if !ok {
			return false
		}
		n := ssax.CalleeName(cl.Common())
		return n == "(sort.StringSlice).Sort" || n == "sort.Strings" || n == "(*"+np+".roundRobinSelector).sortEntries" || n == "slices.Sort" || n == "slices.SortFunc" || n == "sort.Sort"
	}
	nins := 0
	for _, f := range r.P.ModuleFuncs(np) {
		if !strings.Contains(ssax.FuncName(f), "roundRobinSelector") {
			continue
		}
		for _, fld := range []string{"nodes", "lookupTable"} {
			var inserts []ssa.Instruction
			for _, b := range f.Blocks {
				for _, in := range b.Instrs {
					st, ok := in.(*ssa.Store)
					if !ok {
						continue
					}
					// insertion: field = append(field, elems...)
					if ssax.FieldQName(st.Addr) == sel+fld {
						if c, isCall := st.Val.(*ssa.Call); isCall && len(ssax.AppendedValues(c)) > 0 {
							inserts = append(inserts, in)
						}
					}
					// element overwrite: field[i] = v
					if ia, isIA := st.Addr.(*ssa.IndexAddr); isIA && strings.HasSuffix(ssax.Path(ia.X), "."+fld) && strings.HasPrefix(ssax.Path(ia.X), "recv") {
						inserts = append(inserts, in)
					}
				}
			}
			for _, ins := range inserts {
				nins++
				construct := fmt.Sprintf("%s: write#%d into %s is followed by a sort", ssax.FuncName(f), nins, fld)
				if tgt, path, found := (ssax.Search{Target: ssax.IsReturn, Avoid: isSort}).From(f, ins); found {
					r.Violate(rule, construct, r.pos(ins), fmt.Sprintf("return at %s reachable after the write at %s without re-sorting (%s): lookups and the replica arithmetic assume sorted tables, so placement would depend on event history", r.pos(tgt), r.pos(ins), blocksStr(path)))
				} else {
					r.Hold(rule, construct, r.pos(ins), "")
				}
			}
		}
	}
	r.Floor(rule, 3)
	r.guardedField("c16.tables-under-lock", sel+"nodes", "mu", []string{np}, map[string]string{np + ".NewRoundRobinSelector": "constructor"})
	r.guardedField("c16.tables-under-lock", sel+"lookupTable", "mu", []string{np}, map[string]string{np + ".NewRoundRobinSelector": "constructor"})
	r.Floor("c16.tables-under-lock", 15)

	rule = "c16.table-order"
	if f := r.fn(rule, np, "(*roundRobinSelector).sortEntries"); f != nil && len(f.AnonFuncs) == 1 {
		r.cmpSSA(rule, f.AnonFuncs[0], "lex(group↑, shardID↑)", lex(key("$0.group", "$1.group"), key("$0.shardID", "$1.shardID")), 9)
	}
	if f := r.fn(rule, np, "(*roundRobinSelector).Pick"); f != nil && len(f.AnonFuncs) == 1 {
		// lower bound of (group, shardID) in the same order: pred(i) ⇔ ¬(entry_i < target)
		r.cmpSSA(rule, f.AnonFuncs[0], "lower-bound predicate: entry ≥ (group, shardID) in lex(group, shardID)", func(w *cmpeval.World) bool {
			return !w.LexLess(key("r.lookupTable[$0].group", "group"), key("r.lookupTable[$0].shardID", "shardID"))
		}, 9)
	}
	r.Floor(rule, 2)

	// 4. idempotent insertion
	rule = "c16.idempotent-insert"
	if f := r.fn(rule, np, "(*roundRobinSelector).AddNode"); f != nil {
		construct := ssax.FuncName(f) + ": a node name already present is not appended again"
		var ins []ssa.Instruction
		for _, in := range ssax.Find(f, ssax.StoreTo(sel+"nodes", nil)) {
			if c, ok := in.(*ssa.Store).Val.(*ssa.Call); ok && len(ssax.AppendedValues(c)) > 0 {
				ins = append(ins, in)
			}
		}
		if len(ins) == 0 {
			r.Violate(rule, construct, r.fpos(f), "no insertion found")
		} else {
			// a membership test: an == comparison with an element of recv.nodes whose "equal" outcome cannot reach the insertion
			guarded := false
			for _, b := range f.Blocks {
				iff, ok := b.Instrs[len(b.Instrs)-1].(*ssa.If)
				if !ok {
					continue
				}
				bo, ok := iff.Cond.(*ssa.BinOp)
				if !ok || (bo.Op != token.EQL && bo.Op != token.NEQ) {
					continue
				}
				if !strings.Contains(ssax.Path(bo.X)+ssax.Path(bo.Y), "recv.nodes[]") {
					continue
				}
				eq := b.Succs[0]
				if bo.Op == token.NEQ {
					eq = b.Succs[1]
				}
				first := eq.Instrs[0]
				_, _, reach := (ssax.Search{Target: func(in ssa.Instruction) bool { return in == ins[0] }}).From(f, first)
				if first == ins[0] {
					reach = true
				}
				if !reach && b.Dominates(ins[0].Block()) || !reach && reachesBlock(b, ins[0].Block()) {
					guarded = true
				}
			}
			// or a call that removes the name first
			if len(ssax.Find(f, ssax.CallTo("(*"+np+".roundRobinSelector).RemoveNode"))) > 0 {
				guarded = true
			}
			if guarded {
				r.Hold(rule, construct, r.pos(ins[0]), "membership test before the append")
			} else {
				r.Violate(rule, construct, r.pos(ins[0]), "AddNode appends the name unconditionally, and the schema handlers forward every add-or-UPDATE event to it: after a repeated event the name is listed twice, adjacent copies put two replicas of a shard on the same node, coordinators with different event histories disagree, and RemoveNode leaves a stale copy")
			}
		}
	}
	if f := r.fn(rule, np, "(*roundRobinSelector).OnAddOrUpdate"); f != nil {
		r.neverBefore(rule, f, call("(*"+np+".roundRobinSelector).removeGroup"), NM{"lookupTable insertion", func(in ssa.Instruction) bool {
			st, ok := in.(*ssa.Store)
			if !ok || ssax.FieldQName(st.Addr) != sel+"lookupTable" {
				return false
			}
			c, isCall := st.Val.(*ssa.Call)
			return isCall && len(ssax.AppendedValues(c)) > 0
		}}, nil)
	}
	r.Floor(rule, 2)

	// 5. selectNode arithmetic
	rule = "c16.replica-arithmetic"
	if f := r.fn(rule, np, "(*roundRobinSelector).selectNode"); f != nil {
		rems := ssax.Find(f, func(in ssa.Instruction) bool { b, ok := in.(*ssa.BinOp); return ok && b.Op == token.REM })
		ok := len(rems) == 1
		if ok {
			rem := rems[0].(*ssa.BinOp)
			lenCall, isLen := rem.Y.(*ssa.Call)
			ok = isLen && ssax.CalleeName(lenCall.Common()) == "builtin:len" && ssax.Path(lenCall.Call.Args[0]) == "recv.nodes"
			add, isAdd := rem.X.(*ssa.BinOp)
			ok = ok && isAdd && add.Op == token.ADD && flowsFromParamNamed(add, "arg0", 0) && flowsFromParamNamed(add, "arg1", 0)
		}
		r.Check(ok, rule, ssax.FuncName(f)+": node = nodes[(index+replica) mod len(nodes)]", r.fpos(f), "consecutive replicas map to consecutive (hence distinct, when enough nodes exist) positions of the sorted node list")
	}
	if f := r.fn(rule, np, "(*roundRobinSelector).Pick"); f != nil {
		cond := "builtin:len(recv.nodes) == 0"
		sn := ssax.CallTo("(*" + np + ".roundRobinSelector).selectNode")
		if !ssax.HasCond(f, cond) {
			r.Violate(rule, ssax.FuncName(f)+": no modulo by zero nodes", r.fpos(f), "no len(nodes)==0 exit; conditions: "+strings.Join(ssax.Conds(f), "; "))
		} else if _, _, found := (ssax.Search{Target: sn, Edge: ssax.PruneCond(cond, false)}).From(f, nil); found {
			r.Violate(rule, ssax.FuncName(f)+": no modulo by zero nodes", r.fpos(f), "selectNode reachable with an empty node list")
		} else {
			r.Hold(rule, ssax.FuncName(f)+": no modulo by zero nodes", r.fpos(f), cond)
		}
	}
	r.Floor(rule, 2)
}

func reachesBlock(a, b *ssa.BasicBlock) bool {
	seen := map[*ssa.BasicBlock]bool{}
	st := []*ssa.BasicBlock{a}
	for len(st) > 0 {
		x := st[len(st)-1]
		st = st[:len(st)-1]
		if x == b {
			return true
		}
		if seen[x] {
			continue
		}
		seen[x] = true
		st = append(st, x.Succs...)
	}
	return false
}
