package rules

import (
	"fmt"
	"strings"

	"golang.org/x/tools/go/ssa"

	"bvcheck/internal/cmpeval"
	"bvcheck/internal/core"
	"bvcheck/internal/ssax"
)

func init() {
	register(&core.Property{
		ID:    "C06",
		Title: "Time segments partition the timeline; each point lives in exactly one",
		Decides: "timestamp.TimeRange.Contains/Overlapping/Include have exactly interval semantics with the inclusivity flags, over every ordering of their endpoints (non-degenerate ranges); " +
			"segment creation runs under the controller lock, re-checks for an existing segment containing the instant before creating a directory, caps the new end at the next segment's start, persists that end before loading, and keeps the list sorted; a persisted end overrides the directory-derived one on open; the segment list is accessed under the controller lock; " +
			"writers pick a segment by the written point's own timestamp (never the clock) and through the same Contains predicate.; the multi-hour / multi-day grid never feeds a count of absolute hours into a sub-day wall-clock field of time.Date",
		NotDecided: "grid arithmetic (IntervalRule.Standard/NextTime), DST/time-zone behaviour, stability of the partition across restarts — value-level calendar computations.",
		Technique:  "finite-domain evaluation of interval predicates; CFG ordering and must-lockset; SSA def-use of the segment-selection argument",
		Run:        runC06,
	})
	register(&core.Property{
		ID:    "C07",
		Title: "Retention removes only fully expired segments and hides them at once",
		Decides: "TimeRange.Before(t) holds exactly when the whole range lies before t; retention (remove) deletes and unlists a segment only on the branch where its range is Before the deadline parameter, and queries (SelectSegments) drop — and release — exactly the segments whose range is Before the retention deadline, using the same predicate; " +
			"both deadlines derive from the live TTL option at the time of use, and a live options update always stores the new TTL; forced cleanup keeps at least one segment, deletes exactly one, under the controller lock; retention and forced cleanup take the retention gate without blocking and release it.; every read of the TTL through the controller's shared options holds optsMutex (a copy taken under the lock) — the rule is rewritten in place by live group updates; the instant handed to the retention run derives from the clock (never from the event time of written data alone)",
		NotDecided: "clock behaviour, tick sequences, timing of the cron run, what estimatedDuration computes.",
		Technique:  "finite-domain evaluation of the interval predicate; guarded-call (control dependence) on resolved predicate calls; SSA def-use for the TTL source; channel-semaphore pairing",
		Run:        runC07,
	})
}

const tsPkg = "pkg/timestamp"

// degenerateToo is set by the thorough tier of C06: empty/point ranges (Start == End) are then compared as well
// and their disagreements reported as notes (they are outside the claimed domain).
func nondegenerate(w *cmpeval.World, ranges ...string) {
	for _, p := range ranges {
		if w.Cmp(p+".Start", p+".End") >= 0 {
			panic(cmpeval.Skip{})
		}
	}
}

func runC06(c *core.Ctx) {
	r := newR(c)
	rule := "c06.interval-predicates"
	r.cmpFunc(rule, tsPkg, "TimeRange.Contains", "Start ⋖ x ⋖ End with inclusivity flags",
		func(w *cmpeval.World) bool {
			nondegenerate(w, "$r")
			x := "Unix(const:0,$0)"
			lo, hi := w.Cmp(x, "$r.Start"), w.Cmp(x, "$r.End")
			return (lo > 0 || lo == 0 && w.Flag("$r.IncludeStart")) && (hi < 0 || hi == 0 && w.Flag("$r.IncludeEnd"))
		}, 20)
	r.cmpFunc(rule, tsPkg, "TimeRange.Overlapping", "the two intervals share a point",
		func(w *cmpeval.World) bool {
			nondegenerate(w, "$r", "$0")
			a, b := w.Cmp("$r.Start", "$0.End"), w.Cmp("$0.Start", "$r.End")
			return (a < 0 || a == 0 && w.Flag("$r.IncludeStart") && w.Flag("$0.IncludeEnd")) && (b < 0 || b == 0 && w.Flag("$0.IncludeStart") && w.Flag("$r.IncludeEnd"))
		}, 100)
	r.cmpFunc(rule, tsPkg, "TimeRange.Include", "other ⊆ receiver",
		func(w *cmpeval.World) bool {
			nondegenerate(w, "$r", "$0")
			a, b := w.Cmp("$r.Start", "$0.Start"), w.Cmp("$r.End", "$0.End")
			return (a < 0 || a == 0 && (w.Flag("$r.IncludeStart") || !w.Flag("$0.IncludeStart"))) && (b > 0 || b == 0 && (w.Flag("$r.IncludeEnd") || !w.Flag("$0.IncludeEnd")))
		}, 100)
	r.Floor(rule, 3)

	// 2. create / load / open
	sc := "(*" + stPkg + ".segmentController[T, O])"
	if f := r.fn("c06.create", stPkg, "(*segmentController).create"); f != nil {
		rule := "c06.create"
		mk := call("iface:(pkg/fs.FileSystem).MkdirPanicIfExist")
		lock := call("(*sync.RWMutex).Lock")
		r.neverBefore(rule, f, lock, mk, nil)
		for _, m := range ssax.Find(f, mk.M) {
			r.Check(locksOf(f).At(m)["recv.RWMutex"] == 2, rule, ssax.FuncName(f)+": directory created under sc.Lock", r.pos(m), "segment creation is serialized by the controller write lock")
		}
		// the existing-segment scan precedes the creation and returns the segment it found: some Contains test
		// has a true outcome from which no directory creation is reachable, and it cannot run after the creation
		{
			construct := ssax.FuncName(f) + ": existing segment containing the instant is returned, not re-created"
			found := false
			for _, b := range f.Blocks {
				iff, ok := b.Instrs[len(b.Instrs)-1].(*ssa.If)
				if !ok {
					continue
				}
				c, neg := condCall(iff.Cond)
				if c == nil || neg || ssax.CalleeName(c.Common()) != "("+tsPkg+".TimeRange).Contains" {
					continue
				}
				first := b.Succs[0].Instrs[0]
				_, _, reach := (ssax.Search{Target: mk.M}).From(f, first)
				if mk.M(first) {
					reach = true
				}
				_, _, after := (ssax.Search{Target: func(x ssa.Instruction) bool { return x == ssa.Instruction(c) }}).From(f, ssax.Find(f, mk.M)[0])
				if !reach && !after {
					found = true
				}
			}
			r.Check(found, rule, construct, r.fpos(f), "a Contains(start) hit before the creation leads to returning that segment")
		}
		// end = min(stdEnd, next.Start): the end cell is assigned next.Start only under next.Start.Before(stdEnd)
		construct := ssax.FuncName(f) + ": end capped at the next segment's start"
		var endPhi *ssa.Phi
		if ld := ssax.Find(f, ssax.CallTo(sc+".load")); len(ld) == 1 {
			endPhi, _ = ld[0].(*ssa.Call).Call.Args[3].(*ssa.Phi)
		}
		if endPhi == nil || len(endPhi.Edges) != 2 {
			r.Undecide(rule, construct, r.fpos(f), "the end handed to load is not a two-way choice")
		} else {
			ok := false
			for i, e := range endPhi.Edges {
				o := endPhi.Edges[1-i]
				oc, isCall := o.(*ssa.Call)
				if strings.HasSuffix(ssax.Path(e), ".Start") && isCall && strings.HasSuffix(ssax.CalleeName(oc.Common()), ".NextTime") {
					// the edge carrying next.Start comes from the true side of next.Start.Before(stdEnd)
					pred, opred := endPhi.Block().Preds[i], endPhi.Block().Preds[1-i]
					for _, b := range f.Blocks {
						iff, isIf := b.Instrs[len(b.Instrs)-1].(*ssa.If)
						if !isIf {
							continue
						}
						c, neg := condCall(iff.Cond)
						if c == nil || neg || ssax.CalleeName(c.Common()) != "(time.Time).Before" || !strings.HasSuffix(ssax.Path(c.Call.Args[0]), ".Start") || c.Call.Args[1] != o {
							continue
						}
						t, fl := b.Succs[0], b.Succs[1]
						if (t == pred || t.Dominates(pred)) && !(t == opred || t.Dominates(opred)) && !(fl == pred || fl.Dominates(pred)) {
							ok = true
						}
					}
				}
			}
			r.Check(ok, rule, construct, r.pos(endPhi), "end = next.Start exactly on the outcome next.Start.Before(stdEnd), else the standard end")
		}
		if false {
			var endCell *ssa.Alloc
			var fromNext, fromStd *ssa.Store
			for _, ref := range *endCell.Referrers() {
				if st, ok := ref.(*ssa.Store); ok && st.Addr == endCell {
					if strings.HasSuffix(ssax.Path(st.Val), ".Start") {
						fromNext = st
					} else if c, isCall := st.Val.(*ssa.Call); isCall && strings.HasSuffix(ssax.CalleeName(c.Common()), ".NextTime") {
						fromStd = st
					} else if p, isLoad := st.Val.(*ssa.UnOp); isLoad {
						if a, isA := p.X.(*ssa.Alloc); isA && a.Comment == "stdEnd" {
							fromStd = st
						}
					}
				}
			}
			ok := fromNext != nil && fromStd != nil
			if ok {
				// fromNext only on the true outcome of time.Time.Before(next.Start, stdEnd)
				ok = r.onlyWhenCall(rule, f, NM{"end = next.Start", func(in ssa.Instruction) bool { return in == ssa.Instruction(fromNext) }}, "(time.Time).Before", true,
					func(c *ssa.Call) bool { return strings.HasSuffix(ssax.Path(c.Call.Args[0]), ".Start") }, "the neighbour caps the new segment only when it starts inside the standard span") &&
					r.onlyWhenCall(rule, f, NM{"end = stdEnd", func(in ssa.Instruction) bool { return in == ssa.Instruction(fromStd) }}, "(time.Time).Before", false,
						func(c *ssa.Call) bool { return strings.HasSuffix(ssax.Path(c.Call.Args[0]), ".Start") }, "the standard end is used only when no neighbour starts before it")
			} else {
				r.Violate(rule, construct, r.fpos(f), "the end of a new segment is not assigned from both the standard end and the next segment's start")
			}
		}
		// the end that is persisted is the end the live segment gets
		{
			construct := ssax.FuncName(f) + ": persisted EndTime is the end handed to load"
			ok := false
			var pos string
			if ld := ssax.Find(f, ssax.CallTo(sc+".load")); len(ld) == 1 {
				endArg := ld[0].(*ssa.Call).Call.Args[3]
				for _, in := range ssax.Find(f, ssax.StoreTo(stPkg+".segmentMeta.EndTime", nil)) {
					pos = r.pos(in)
					if c, isCall := in.(*ssa.Store).Val.(*ssa.Call); isCall && ssax.CalleeName(c.Common()) == "(time.Time).Format" && c.Call.Args[0] == endArg {
						ok = true
					}
				}
			}
			r.Check(ok, rule, construct, pos, "segmentMeta.EndTime = Format(end) with the same end value that load receives: the boundary seen after a restart equals the live one")
		}
		// the persisted end is written before the segment is loaded
		// the segment's metadata is on disk — atomically and durably (tmp + fsync + rename + fsync dir) — before the
		// segment is loaded / published; a plain in-place Write is not enough (a power cut leaves an empty or torn
		// file and open() then discards the whole segment, durably flushed parts included)
		r.neverBefore(rule, f, reaching(2, fsWriteAtomic), call(sc+".load"), nil)
	}
	if f := r.fn("c06.load-sorted", stPkg, "(*segmentController).load"); f != nil {
		r.mustSeq("c06.load-sorted", f, exitOK(f), nil, NM{"lst = append", ssax.StoreTo(stPkg+".segmentController.lst", nil)}, call(sc+".sortLst"))
	}
	if f := r.fn("c06.load-sorted", stPkg, "(*segmentController).sortLst"); f != nil && len(f.AnonFuncs) == 1 {
		r.cmpSSA("c06.load-sorted", f.AnonFuncs[0], "ascending by segment id", lex(key("sc.lst[$0].id", "sc.lst[$1].id")), 3)
	}
	if f := r.fn("c06.open-persisted-end", stPkg, "(*segmentController).open"); f != nil && len(f.AnonFuncs) >= 1 {
		rule := "c06.open-persisted-end"
		g := f.AnonFuncs[0]
		loads := ssax.Find(g, ssax.CallTo(sc+".load"))
		construct := ssax.FuncName(g) + ": persisted EndTime overrides the directory-derived end"
		if len(loads) != 1 {
			r.Violate(rule, construct, r.fpos(g), "expected exactly one load call in the open callback")
		} else {
			arg := loads[0].(*ssa.Call).Call.Args[3]
			okParse, okDir, extra := false, false, false
			if phi, isPhi := arg.(*ssa.Phi); isPhi {
				extra = len(phi.Edges) != 2
				for _, e := range phi.Edges {
					switch x := e.(type) {
					case *ssa.Parameter:
						okDir = true
					case *ssa.Extract:
						if c, isCall := x.Tuple.(*ssa.Call); isCall && ssax.CalleeName(c.Common()) == "time.Parse" && x.Index == 0 {
							okParse = true
						} else {
							extra = true
						}
					default:
						extra = true
					}
				}
			}
			r.Check(okParse && okDir && !extra, rule, construct, r.pos(loads[0]), "the end handed to load is exactly the parsed metadata EndTime when present, else the end derived from the next directory (no further adjustment: boundaries must not move across a restart)")
		}
	}
	// 3. segment list under the controller lock
	n := r.guardedField("c06.list-under-lock", stPkg+".segmentController.lst", "RWMutex", []string{stPkg}, map[string]string{})
	if n == 0 {
		r.Undecide("c06.list-under-lock", stPkg+".segmentController.lst", "", "no access found")
	}
	r.Floor("c06.list-under-lock", 20)

	// 4. writers select by the point's timestamp
	rule = "c06.writer-uses-point-time"
	nw := 0
	for _, f := range r.P.ModuleFuncs("banyand/measure", "banyand/stream", "banyand/trace") {
		pos := r.fpos(f)
		if !strings.Contains(pos, "/write_") {
			continue
		}
		for _, in := range ssax.Find(f, func(in ssa.Instruction) bool {
			c, ok := in.(*ssa.Call)
			return ok && strings.HasPrefix(ssax.CalleeName(c.Common()), "iface:("+stPkg+".TSDB[") && strings.HasSuffix(ssax.CalleeName(c.Common()), ").CreateSegmentIfNotExist")
		}) {
			nw++
			arg := in.(*ssa.Call).Call.Args[0]
			construct := fmt.Sprintf("%s: CreateSegmentIfNotExist#%d argument", ssax.FuncName(f), nw)
			if flowsFromCallNamed(arg, "time.Now", 0) {
				r.Violate(rule, construct, r.pos(in), "the segment for a written point is chosen from the wall clock, not from the point's own timestamp")
			} else {
				r.Hold(rule, construct, r.pos(in), "derives from the handler's input, not from the clock")
			}
		}
	}
	r.Floor(rule, 10)

	// the segment grid: a bucket index counted in ABSOLUTE time (a Duration since the epoch anchor) is turned back
	// into a start instant by adding a Duration, never by feeding it into the wall-clock fields of time.Date
	// (the two drift apart whenever the UTC offset differs from the one at the anchor: DST, zone rule changes)
	if f := r.fn("c06.grid-absolute-arithmetic", stPkg, "IntervalRule.Standard"); f != nil {
		rule := "c06.grid-absolute-arithmetic"
		n := 0
		for _, in := range ssax.Find(f, ssax.CallTo("time.Date")) {
			n++
			construct := fmt.Sprintf("%s: time.Date#%d takes no sub-day field computed from an absolute duration", ssax.FuncName(f), n)
			bad := false
			// hour / minute / second / nanosecond fields only: a count of calendar DAYS obtained by rounding the
			// absolute distance (the DAY branch's +12h idiom) may legitimately go into the day field
			for i, a := range in.(*ssa.Call).Call.Args {
				if i >= 3 && i <= 6 && flowsFromCallSuffix(a, "time.Time).Sub", 0) {
					bad = true
				}
			}
			r.Check(!bad, rule, construct, r.pos(in), "a count of absolute hours / days (derived from Sub) is passed to a wall-clock field of time.Date: for zones whose current UTC offset differs from the anchor's, the rebuilt bucket start is shifted and the bucket does not contain the instant it was computed for — points are filed in the previous segment, an empty segment is created and the next write panics")
		}
		r.Floor(rule, 1)
	}
}

func flowsFromCallNamed(v ssa.Value, callee string, depth int) bool {
	if depth > 14 || v == nil {
		return false
	}
	if c, ok := v.(*ssa.Call); ok && ssax.CalleeName(c.Common()) == callee {
		return true
	}
	return anyOperand(v, func(o ssa.Value) bool { return flowsFromCallNamed(o, callee, depth+1) })
}

func flowsFromParam(v ssa.Value, depth int) bool { return flowsFromAnyParam(v, depth) }

func flowsFromAnyParam(v ssa.Value, depth int) bool {
	if depth > 16 || v == nil {
		return false
	}
	switch v.(type) {
	case *ssa.Parameter, *ssa.FreeVar:
		return true
	}
	return anyOperand(v, func(o ssa.Value) bool { return flowsFromAnyParam(o, depth+1) })
}

// anyOperand applies f to the operands of v (through local cells: values stored into an Alloc).
func anyOperand(v ssa.Value, f func(ssa.Value) bool) bool {
	if ms, ok := v.(*ssa.MakeSlice); ok && ms.Referrers() != nil {
		// a slice filled element by element: what is stored into it
		for _, ref := range *ms.Referrers() {
			if ia, ok := ref.(*ssa.IndexAddr); ok && ia.Referrers() != nil {
				for _, r2 := range *ia.Referrers() {
					if st, ok := r2.(*ssa.Store); ok && st.Addr == ia && f(st.Val) {
						return true
					}
				}
			}
		}
	}
	if al, ok := v.(*ssa.Alloc); ok {
		for _, ref := range *al.Referrers() {
			switch x := ref.(type) {
			case *ssa.Store:
				if x.Addr == al && f(x.Val) {
					return true
				}
			case *ssa.IndexAddr:
				for _, r2 := range *x.Referrers() {
					if st, ok := r2.(*ssa.Store); ok && st.Addr == x && f(st.Val) {
						return true
					}
				}
			case *ssa.FieldAddr:
				for _, r2 := range *x.Referrers() {
					if st, ok := r2.(*ssa.Store); ok && st.Addr == x && f(st.Val) {
						return true
					}
				}
			}
		}
		return false
	}
	in, ok := v.(ssa.Instruction)
	if !ok {
		return false
	}
	var ops []*ssa.Value
	for _, op := range in.Operands(ops) {
		if op != nil && *op != nil && f(*op) {
			return true
		}
	}
	return false
}

func runC07(c *core.Ctx) {
	r := newR(c)
	r.cmpFunc("c07.before-predicate", tsPkg, "TimeRange.Before", "the whole range lies before t",
		func(w *cmpeval.World) bool {
			nondegenerate(w, "$r")
			e := w.Cmp("$r.End", "$0")
			return e < 0 || e == 0 && !w.Flag("$r.IncludeEnd")
		}, 10)
	sc := "(*" + stPkg + ".segmentController[T, O])"
	before := "(" + tsPkg + ".TimeRange).Before"
	// 2. remove: delete/unlist only when Before(deadline)
	if f := r.fn("c07.delete-only-expired", stPkg, "(*segmentController).remove"); f != nil {
		rule := "c07.delete-only-expired"
		deadlineIsParam := func(c *ssa.Call) bool {
			return ssax.Path(c.Call.Args[1]) == "arg0" && strings.HasSuffix(ssax.Path(c.Call.Args[0]), ".TimeRange")
		}
		r.onlyWhenCall(rule, f, call("(*"+stPkg+".segment[T, O]).delete"), before, true, deadlineIsParam, "a segment is deleted only if its whole range is before the retention deadline")
		r.onlyWhenCall(rule, f, call(sc+".removeSeg"), before, true, deadlineIsParam, "a segment is unlisted only if its whole range is before the retention deadline")
	}
	if f := r.fn("c07.hide-expired", stPkg, "(*database).SelectSegments"); f != nil {
		rule := "c07.hide-expired"
		isDeadline := func(c *ssa.Call) bool {
			return flowsFromCallNamed(c.Call.Args[1], sc+".getRetentionDeadline", 0) && flowsFromCallNamed(c.Call.Args[0], "iface:("+stPkg+".Segment[T, O]).GetTimeRange", 0)
		}
		dec := NM{"DecRef", func(in ssa.Instruction) bool {
			cl, ok := in.(*ssa.Call)
			return ok && strings.HasSuffix(ssax.CalleeName(cl.Common()), ").DecRef")
		}}
		keep := NM{"kept = append", func(in ssa.Instruction) bool { return len(ssax.AppendedValues(in)) > 0 }}
		r.onlyWhenCall(rule, f, dec, before, true, isDeadline, "a selected segment is dropped (and released) only if its whole range is before the retention deadline")
		r.onlyWhenCall(rule, f, keep, before, false, isDeadline, "a segment whose whole range is before the deadline must not be returned to queries")
	}
	r.Floor("c07.delete-only-expired", 2)
	r.Floor("c07.hide-expired", 2)

	// same TTL source, read at the time of use
	{
		rule := "c07.live-ttl"
		if f := r.fn(rule, stPkg, "(*retentionTask).run"); f != nil {
			rm := ssax.Find(f, ssax.CallTo(sc+".remove"))
			construct := ssax.FuncName(f) + ": delete deadline derives from the live TTL option"
			if len(rm) != 1 {
				r.Violate(rule, construct, r.fpos(f), "expected exactly one remove call")
			} else {
				arg := rm[0].(*ssa.Call).Call.Args[1]
				live := flowsFromCallWhere(arg, func(c *ssa.Call) bool { return readsLiveOpts(c.Call.StaticCallee(), 2) }, 0)
				now := flowsFromAnyParam(arg, 0)
				if !live {
					r.Violate(rule, construct, r.pos(rm[0]), "the deadline handed to remove() is computed from a duration captured when the task was created, not from segmentController.opts.TTL at run time: after a live TTL increase retention keeps deleting segments that are not expired under the new TTL (queries already use the new TTL)")
				} else {
					r.Check(now, rule, construct, r.pos(rm[0]), "deadline = now − live TTL")
				}
			}
		}
		if f := r.fn(rule, stPkg, "(*segmentController).getRetentionDeadline"); f != nil {
			r.mustSeq(rule, f, exitAny, nil, NM{"a read of the live options (segmentController.opts)", func(in ssa.Instruction) bool {
				c, ok := in.(*ssa.Call)
				return ok && readsLiveOpts(c.Call.StaticCallee(), 2)
			}})
		}
		if f := r.fn(rule, stPkg, "(*segmentController).updateOptions"); f != nil {
			for _, fld := range []string{"TTL", "SegmentInterval", "ShardNum"} {
				r.mustSeq(rule, f, exitAny, nil, call("(*sync.RWMutex).Lock"), NM{"opts." + fld + " = new", ssax.StoreTo(stPkg+".TSDBOpts."+fld, nil)})
			}
		}
		r.Floor(rule, 5)
	}

	// retention's "now" is bounded by the clock: the instant handed to retentionTask.run derives from clock.Now()
	// (possibly min'ed with the tick's event time), never from the event time of written data alone
	{
		rule := "c07.retention-now-from-clock"
		n := 0
		for _, f := range r.P.ModuleFuncs(stPkg) {
			for _, in := range ssax.Find(f, func(in ssa.Instruction) bool {
				cc := ssax.Common(in)
				return cc != nil && strings.HasSuffix(ssax.CalleeName(cc), ".retentionTask[T, O]).run")
			}) {
				n++
				args := ssax.Common(in).Args
				var now ssa.Value
				for _, a := range args {
					if strings.HasSuffix(a.Type().String(), "time.Time") {
						now = a
					}
				}
				construct := fmt.Sprintf("%s: retention run #%d is given an instant bounded by the clock", ssax.FuncName(f), n)
				if now == nil {
					r.Undecide(rule, construct, r.pos(in), "no time.Time argument")
					continue
				}
				// a timer-driven call passes the scheduler's own time (a parameter of the callback); an event-driven
				// call must consult the clock
				fromClock := flowsFromCallSuffix(now, ").Now", 0) || flowsFromCallSuffix(now, "time.Now", 0)
				_, isParam := now.(*ssa.Parameter)
				r.Check(fromClock || isParam, rule, construct, r.pos(in), "the instant handed to retention is computed from the event time carried by Tick (the maximum written timestamp) without consulting the clock: a single accepted point dated beyond now+TTL moves the deadline past every live segment and retention deletes the group's current data")
			}
		}
		r.Floor(rule, 1)
	}

	// the TTL is rewritten in place by live group updates: every read of it through the controller's
	// options happens with optsMutex held (a copy taken under the lock), never through the bare pointer
	{
		rule := "c07.ttl-read-under-lock"
		n := 0
		for _, f := range r.P.ModuleFuncs(stPkg) {
			for _, b := range f.Blocks {
				for _, in := range b.Instrs {
					fa, ok := in.(*ssa.FieldAddr)
					if !ok || !strings.HasSuffix(ssax.FieldQName(fa), ".TSDBOpts.TTL") {
						continue
					}
					// only options reached through the shared controller (not a constructor's parameter copy)
					shared := flowsFromFieldNamed(fa.X, "opts", 0) && strings.Contains(ssax.Canon(fa.X), ".opts") || flowsFromCallWhere(fa.X, func(c *ssa.Call) bool { return readsLiveOpts(c.Call.StaticCallee(), 1) }, 0)
					if !shared {
						continue
					}
					n++
					construct := fmt.Sprintf("%s: TTL access #%d through the controller's options", ssax.FuncName(f), n)
					if ssax.FuncName(f) == "(*"+stPkg+".database[T, O]).startRotationTask" {
						// reviewed: runs inside OpenTSDB before the database is handed out (no updateOptions can run yet),
						// and the value only seeds retentionTask.duration, which run() no longer uses for the deadline
						r.Hold(rule, construct, r.pos(in), "exempt: start-up read before the database is published")
						continue
					}
					held := false
					for k, m := range locksOf(f).At(in) {
						if strings.HasSuffix(k, ".optsMutex") && m >= 1 {
							held = true
						}
					}
					if held {
						r.Hold(rule, construct, r.pos(in), "optsMutex held")
					} else {
						r.Violate(rule, construct, r.pos(in), "opts.TTL is read without optsMutex (getOptions() guards only the pointer): updateOptions assigns the two-word rule in place, so the reader can combine the new unit with the old number and compute a retention deadline off by the ratio of the units — segments younger than the TTL are deleted or hidden")
					}
				}
			}
		}
		r.Floor(rule, 2)
	}

	// 3. keep-one, single step, under lock; retention gate
	if f := r.fn("c07.keep-one", stPkg, "(*segmentController).removeOldest"); f != nil {
		rule := "c07.keep-one"
		del := call("(*" + stPkg + ".segment[T, O]).delete")
		dels := ssax.Find(f, del.M)
		r.Check(len(dels) == 1, rule, ssax.FuncName(f)+": exactly one delete", r.fpos(f), fmt.Sprintf("%d delete call(s)", len(dels)))
		if len(dels) == 1 {
			// not in a loop: the delete cannot reach itself
			_, _, again := (ssax.Search{Target: func(in ssa.Instruction) bool { return in == dels[0] }}).From(f, dels[0])
			r.Check(!again, rule, ssax.FuncName(f)+": delete not in a loop", r.pos(dels[0]), "forced cleanup removes one segment per call")
			r.Check(locksOf(f).At(dels[0])["recv.RWMutex"] == 2, rule, ssax.FuncName(f)+": delete under sc.Lock", r.pos(dels[0]), "")
			// unreachable when len(lst) <= 1
			cond := "builtin:len(recv.lst) <= 1"
			if !ssax.HasCond(f, cond) {
				r.Violate(rule, ssax.FuncName(f)+": keep-one guard", r.fpos(f), "no len(sc.lst) <= 1 test; conditions: "+strings.Join(ssax.Conds(f), "; "))
			} else if _, _, found := (ssax.Search{Target: del.M, Edge: ssax.PruneCond(cond, false)}).From(f, nil); found {
				r.Violate(rule, ssax.FuncName(f)+": keep-one guard", r.pos(dels[0]), "delete reachable when at most one segment remains")
			} else {
				r.Hold(rule, ssax.FuncName(f)+": keep-one guard", r.fpos(f), cond)
			}
		}
	}
	for _, name := range []string{"(*database).DeleteOldestSegment", "(*database).PeekOldestSegmentEndTime", "(*retentionTask).run"} {
		rule := "c07.retention-gate"
		f := r.fn(rule, stPkg, name)
		if f == nil {
			continue
		}
		// the gate is a channel semaphore: a non-blocking send in a select, released by a deferred receive
		var sends []ssa.Instruction
		for _, in := range ssax.Find(f, func(in ssa.Instruction) bool { _, ok := in.(*ssa.Select); return ok }) {
			sel := in.(*ssa.Select)
			for _, st := range sel.States {
				if st.Dir == 1 /* SendOnly */ && strings.HasSuffix(ssax.Path(st.Chan), ".retentionGate") {
					sends = append(sends, in)
					r.Check(!sel.Blocking, rule, ssax.FuncName(f)+": retention gate taken without blocking", r.pos(in), "select with default")
				}
			}
		}
		construct := ssax.FuncName(f) + ": gate acquired before the segment operation and released by defer"
		if len(sends) != 1 {
			r.Violate(rule, construct, r.fpos(f), fmt.Sprintf("expected one retentionGate acquisition, found %d", len(sends)))
			continue
		}
		op := call(sc+".remove", sc+".removeOldest", sc+".peekOldestSegmentEndTime")
		r.neverBefore(rule, f, NM{"gate select", func(in ssa.Instruction) bool { return in == sends[0] }}, op, nil)
		rel := NM{"defer <-gate", func(in ssa.Instruction) bool {
			d, ok := in.(*ssa.Defer)
			if !ok {
				return false
			}
			mc, ok := d.Call.Value.(*ssa.MakeClosure)
			if !ok {
				return false
			}
			for _, x := range ssax.Find(mc.Fn.(*ssa.Function), func(x ssa.Instruction) bool {
				u, ok := x.(*ssa.UnOp)
				return ok && u.Op.String() == "<-" && strings.HasSuffix(ssax.Path(u.X), ".retentionGate")
			}) {
				_ = x
				return true
			}
			return false
		}}
		r.neverBefore(rule, f, rel, op, nil)
	}
	r.Floor("c07.retention-gate", 9)
}

// flowsFromCallWhere: v is computed (through operands, phis, local cells) from the result of a call accepted by ok.
func flowsFromCallWhere(v ssa.Value, ok func(*ssa.Call) bool, depth int) bool {
	if depth > 14 || v == nil {
		return false
	}
	if c, isCall := v.(*ssa.Call); isCall && ok(c) {
		return true
	}
	return anyOperand(v, func(o ssa.Value) bool { return flowsFromCallWhere(o, ok, depth+1) })
}

// readsLiveOpts: fn loads segmentController.opts itself or (statically, within depth) calls a module function that does.
func readsLiveOpts(fn *ssa.Function, depth int) bool {
	if fn == nil || fn.Blocks == nil {
		return false
	}
	for _, b := range fn.Blocks {
		for _, in := range b.Instrs {
			if fa, ok := in.(*ssa.FieldAddr); ok && strings.HasSuffix(ssax.FieldQName(fa), ".segmentController.opts") {
				return true
			}
			if depth > 0 {
				if c, ok := in.(*ssa.Call); ok && readsLiveOpts(c.Call.StaticCallee(), depth-1) {
					return true
				}
			}
		}
	}
	return false
}
