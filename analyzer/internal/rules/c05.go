package rules

import (
	"fmt"
	"go/token"
	"go/types"
	"sort"
	"strings"

	"golang.org/x/tools/go/ssa"

	"bvcheck/internal/core"
	"bvcheck/internal/pair"
	"bvcheck/internal/ssax"
)

func init() {
	register(&core.Property{
		ID:    "C05",
		Title: "Queries see one consistent snapshot while maintenance runs",
		Decides: "every pin of a table snapshot (currentSnapshot/CurrentSnapshot in measure, stream, trace, sidx) is released or handed to an owner on every exit of the pinning function; " +
			"reference-count fields are touched only by the ref-count protocol functions and parts are released only when the count reaches zero; the table's snapshot pointer is read and written under the table lock; " +
			"trace snapshot transactions are committed only under the publication fence; the generic Transition/Transaction release what they pinned; the mutable removable flag is read only by the release path and by sidx' counting accessor, never to derive a reader's part set; the merged-id set handed to a merge introduction is not written again by the caller.",
		NotDecided: "linearizability of what a query observes, absence of data races in general, whether the row-path trace query needs the publication fence.",
		Technique:  "SSA acquire/release typestate with alias closure and ownership transfer; field-write confinement; must-lockset analysis; read confinement of a mutable flag by a semantic predicate; hand-over-then-mutate path search (also through captured variables)",
		Run:        runC05,
	})
}

func snapshotKind(pkg string) *pair.Kind {
	rel := map[string]bool{}
	for _, t := range []string{"snapshot", "Snapshot"} {
		for _, m := range []string{"decRef", "DecRef", "release"} {
			rel["(*"+pkg+"."+t+")."+m] = true
		}
	}
	return &pair.Kind{
		Name:    "snapshot pin",
		Release: func(n string) bool { return rel[n] },
		// frozen ownership table: the flusher's pause helper takes over the caller's pin and returns a
		// (possibly different) owned snapshot — both halves are checked below (c05.pin-released on its
		// result, c05.param-owned on its body)
		Consumes: func(n string, arg int) bool {
			return n == "(*"+pkg+".tsTable).pauseFlusherToPileupMemPartsWithMerge" && arg == 1
		},
	}
}

// snapshotOwners: struct fields that may take over a pinned snapshot, with the method of the owning type
// that must release it. Confirmed by reading; each owner's release is itself checked (c05.owner-releases).
var snapshotOwners = map[string]string{}

func runC05(c *core.Ctx) {
	r := newR(c)
	r.pinRules()
	// 3. the table's snapshot pointer is accessed under the table lock
	for _, s := range sibsMST {
		n := r.guardedField("c05.snapshot-under-lock", s.pkg+".tsTable.snapshot", "RWMutex", []string{s.pkg}, map[string]string{
			"(*" + s.pkg + ".tsTable).loadSnapshot": "runs from initTSTable before any loop goroutine starts (checked: c05.load-before-loops)",
		})
		if n == 0 {
			r.Undecide("c05.snapshot-under-lock", s.pkg+".tsTable.snapshot", "", "no access found: field renamed or moved")
		}
		if f := r.fn("c05.load-before-loops", s.pkg, "(*tsTable).loadSnapshot"); f != nil {
			r.whoMayCall("c05.load-before-loops", f, []string{s.pkg + ".initTSTable"})
		}
	}
	r.guardedField("c05.snapshot-under-lock", "banyand/internal/sidx.sidx.snapshot", "mu", []string{"banyand/internal/sidx"}, map[string]string{
		"(*banyand/internal/sidx.sidx).loadSnapshot": "runs from NewSIDX before the instance is published",
	})
	r.Floor("c05.snapshot-under-lock", 30)
	r.refRules()
	r.fenceRules()
}

// fenceRules: trace publication fence and the generic Transition/Transaction.
func (r *R) fenceRules() {
	const sp = "banyand/internal/snapshot"
	rule := "c05.publication-fence"
	commit := r.fn(rule, sp, "(*Transaction).Commit")
	if commit != nil {
		// in package trace, Transaction.Commit is called only from commitSnapshotTransaction, with the fence write-held
		n := 0
		for _, site := range r.callersOf(commit) {
			outer := site.Parent()
			for outer.Parent() != nil {
				outer = outer.Parent()
			}
			if outer.Pkg == nil || ssax.Short(outer.Pkg.Pkg.Path()) != sibT.pkg {
				continue
			}
			n++
			name := ssax.FuncName(outer)
			construct := "Transaction.Commit called in " + name
			if name != "(*"+sibT.pkg+".tsTable).commitSnapshotTransaction" {
				r.Violate(rule, construct, r.pos(site), "snapshot transactions of a trace table must be committed through commitSnapshotTransaction (which holds the publication fence)")
				continue
			}
			st := locksOf(site.Parent()).At(site)
			r.Check(st["recv.snapshotPublicationMu"] == 2, rule, construct, r.pos(site), "txn.Commit() runs with tst.snapshotPublicationMu write-locked")
		}
		if n == 0 {
			r.Violate(rule, "Transaction.Commit call sites in banyand/trace", "", "no call site found")
		}
		for _, vr := range r.P.Index().ValueRefs[commit] {
			r.Violate(rule, "Transaction.Commit taken as a value in "+ssax.FuncName(vr.Parent()), r.pos(vr), "the commit function escapes the fence")
		}
	}
	// Transition.Commit is only reachable through Transaction (AddTransition) in package trace
	if tc := r.fn(rule, sp, "(*Transition).Commit"); tc != nil {
		for _, site := range r.callersOf(tc) {
			r.Violate(rule, "Transition.Commit called directly in "+ssax.FuncName(site.Parent()), r.pos(site), "a single transition committed outside its transaction bypasses the publication fence")
		}
		for _, vr := range r.P.Index().ValueRefs[tc] {
			n := ssax.FuncName(vr.Parent())
			r.Check(strings.HasPrefix(n, sp+".AddTransition"), rule, "Transition.Commit method value in "+n, r.pos(vr), "only AddTransition may capture Transition.Commit")
		}
	}
	// the two-phase vectorized reader takes the fence for reading around both phases, released on exit
	if f := r.fn(rule, sibT.pkg, "(*trace).buildConsistentVectorizedScanBatch"); f != nil {
		acq := call(sibT.pkg + ".acquireSnapshotPublicationView")
		p1 := call("(*" + sibT.pkg + ".trace).buildVectorizedPhase1TraceBatch")
		p2 := call("(*" + sibT.pkg + ".trace).buildVectorizedScanBatch")
		var edge ssax.EdgeFilter // follow only useSIDX==true (the single bool parameter)
		for _, prm := range f.Params {
			if b, ok := prm.Type().Underlying().(*types.Basic); ok && b.Kind() == types.Bool && ssax.HasCond(f, ssax.ParamName(prm)) {
				edge = ssax.PruneCond(ssax.ParamName(prm), false)
			}
		}
		r.neverBefore(rule, f, acq, p1, edge)
		r.neverBefore(rule, f, acq, p2, edge)
		// the returned release func is deferred right away
		ok := false
		for _, in := range ssax.Find(f, func(in ssa.Instruction) bool { _, d := in.(*ssa.Defer); return d }) {
			d := in.(*ssa.Defer)
			if c, isCall := d.Call.Value.(*ssa.Call); isCall && acq.M(c) {
				ok = true
			}
			if ld, isLd := d.Call.Value.(*ssa.UnOp); isLd {
				_ = ld
				ok = true
			}
		}
		r.Check(ok, rule, ssax.FuncName(f)+": fence released by defer", r.fpos(f), "the release function returned by acquireSnapshotPublicationView is deferred")
	}
	if f := r.fn(rule, sibT.pkg, "acquireSnapshotPublicationView"); f != nil {
		r.Check(len(ssax.Find(f, ssax.CallTo("(*sync.RWMutex).RLock"))) == 1 && len(ssax.FindDeep(f, ssax.CallTo("(*sync.RWMutex).RUnlock"))) == 1,
			rule, ssax.FuncName(f)+": RLock paired with RUnlock in the returned closure", r.fpos(f), "one RLock site per table, one RUnlock site in the release closure")
	}
	r.Floor(rule, 5)

	// generic Transition / Transaction
	rule = "c05.transition"
	if f := r.fn(rule, sp, "(*Transition).Commit"); f != nil {
		r.mustSeq(rule, f, exitAny, ssax.PruneCond("recv.committed", true),
			NM{"committed=true", ssax.StoreTo(sp+".Transition.committed", ssax.IsTrue)}, call("iface:("+sp+".Manager[S]).ReplaceSnapshot"))
	}
	decOn := func(path string) NM {
		return NM{"DecRef(" + path + ")", func(in ssa.Instruction) bool {
			c, ok := in.(*ssa.Call)
			if !ok || !c.Call.IsInvoke() || c.Call.Method.Name() != "DecRef" {
				return false
			}
			return ssax.Path(c.Call.Value) == path
		}}
	}
	notNil := func(path string) ssax.EdgeFilter {
		return ssax.PruneCond("(reflect.Value).IsNil(reflect.ValueOf("+path+"))", true)
	}
	if f := r.fn(rule, sp, "(*Transition).Rollback"); f != nil {
		edge := ssax.AndEdges(ssax.PruneCond("recv.committed", true), notNil("recv.next"), notNil("recv.current"))
		r.mustSeq(rule, f, exitAny, edge, decOn("recv.next"))
		r.mustSeq(rule, f, exitAny, edge, decOn("recv.current"))
	}
	if f := r.fn(rule, sp, "(*Transition).reset"); f != nil {
		// the pinned current snapshot is released exactly when the transition was committed
		r.mustSeq(rule, f, exitAny, ssax.AndEdges(ssax.PruneCond("recv.committed", false), notNil("recv.current")), decOn("recv.current"))
		construct := ssax.FuncName(f) + ": no DecRef(current) when not committed"
		if tgt, _, found := (ssax.Search{Target: decOn("recv.current").M, Edge: ssax.PruneCond("recv.committed", true)}).From(f, nil); found {
			r.Violate(rule, construct, r.pos(tgt), "an uncommitted (rolled back) transition would release current twice")
		} else {
			r.Hold(rule, construct, r.fpos(f), "")
		}
	}
	if f := r.fn(rule, sp, "NewTransition"); f != nil {
		r.mustSeq(rule, f, exitAny, nil, call("iface:("+sp+".Manager[S]).CurrentSnapshot"), NM{"current stored", ssax.StoreTo(sp+".Transition.current", nil)})
	}
	for _, m := range []string{"Commit", "Rollback"} {
		if f := r.fn(rule, sp, "(*Transaction)."+m); f != nil {
			fin := sp + ".Transaction.finalized"
			r.mustSeq(rule, f, exitAny, ssax.PruneCond("recv.finalized", true), call("(*sync.Mutex).Lock"), NM{"finalized=true", ssax.StoreTo(fin, ssax.IsTrue)})
			for i, a := range fieldAccesses(f, fin) {
				st := locksOf(f).At(a.in)
				r.Check(st["recv.mu"] == 2, rule, fmt.Sprintf("%s: access#%d of finalized under mu", ssax.FuncName(f), i+1), r.pos(a.in), "finalized is tested and set with txn.mu held: Commit and Rollback are mutually exclusive")
			}
		}
	}
	r.Floor(rule, 12)
}

// refRules: the ref-count fields are private to the protocol, and cleanup happens exactly at zero.
func (r *R) refRules() {
	allowedMethods := map[string]bool{"incRef": true, "decRef": true, "IncRef": true, "DecRef": true, "acquire": true, "release": true,
		"refCount": true, "validate": true, "reset": true, "copyAllTo": true, "merge": true, "remove": true, "String": true}
	allowedFuncs := map[string]bool{"newPartWrapper": true, "newSnapshot": true}
	rule := "c05.ref-confined"
	n := 0
	for _, s := range sibsAll {
		for _, f := range r.P.ModuleFuncs(s.pkg) {
			for _, b := range f.Blocks {
				for _, in := range b.Instrs {
					fa, ok := in.(*ssa.FieldAddr)
					if !ok {
						continue
					}
					q := ssax.FieldQName(fa)
					if q != s.pkg+".snapshot.ref" && q != s.pkg+".Snapshot.ref" && q != s.pkg+".partWrapper.ref" {
						continue
					}
					n++
					outer := f
					for outer.Parent() != nil {
						outer = outer.Parent()
					}
					name := ssax.FuncName(outer)
					short := name[strings.LastIndex(name, ".")+1:]
					ok = allowedFuncs[short] && outer.Signature.Recv() == nil || allowedMethods[short] && outer.Signature.Recv() != nil
					r.Check(ok, rule, q+" touched in "+name, r.pos(in), "reference counts may only be touched by the ref-count protocol (inc/dec/acquire/release), constructors and the snapshot transition functions")
				}
			}
		}
	}
	r.Stat("ref_field_sites", n)
	r.Floor(rule, 30)

	// cleanup exactly at zero
	rule = "c05.release-at-zero"
	type dec struct {
		pkg, fn string
		cleanup []string
	}
	var decs []dec
	for _, s := range sibsMST {
		decs = append(decs, dec{s.pkg, "(*snapshot).decRef", []string{"(*" + s.pkg + ".partWrapper).decRef"}})
		decs = append(decs, dec{s.pkg, "(*partWrapper).decRef", []string{s.pkg + ".releaseMemPart", "(*" + s.pkg + ".part).close"}})
	}
	decs[4] = dec{sibT.pkg, "(*snapshot).DecRef", []string{"(*" + sibT.pkg + ".partWrapper).decRef"}}
	decs = append(decs, dec{sibX.pkg, "(*Snapshot).DecRef", []string{"(*" + sibX.pkg + ".Snapshot).reset"}})
	decs = append(decs, dec{sibX.pkg, "(*partWrapper).release", []string{"(*" + sibX.pkg + ".partWrapper).cleanup"}})
	for _, d := range decs {
		f := r.fn(rule, d.pkg, d.fn)
		if f == nil {
			continue
		}
		adds := ssax.Find(f, func(in ssa.Instruction) bool {
			c, ok := in.(*ssa.Call)
			if !ok || ssax.CalleeName(c.Common()) != "sync/atomic.AddInt32" {
				return false
			}
			k, ok := c.Call.Args[1].(*ssa.Const)
			return ok && k.Int64() == -1
		})
		construct := ssax.FuncName(f) + ": cleanup iff the decremented count is zero"
		if len(adds) != 1 {
			r.Violate(rule, construct, r.fpos(f), fmt.Sprintf("expected exactly one atomic.AddInt32(&ref,-1), found %d", len(adds)))
			continue
		}
		nval := adds[0].(*ssa.Call)
		cl := ssax.CallTo(d.cleanup...)
		if len(ssax.Find(f, cl)) == 0 {
			r.Violate(rule, construct, r.fpos(f), "no cleanup call ("+strings.Join(d.cleanup, "|")+") found")
			continue
		}
		bad := false
		for _, pos := range []int64{1, 2} {
			if tgt, _, found := (ssax.Search{Target: cl, Edge: ssax.WorldEdge(nval, pos)}).From(f, adds[0]); found {
				r.Violate(rule, construct, r.pos(tgt), fmt.Sprintf("cleanup at %s is reachable when the decremented count is %d (still referenced)", r.pos(tgt), pos))
				bad = true
			}
		}
		// at zero: every path reaches cleanup (loop-based cleanups: the loop header is reached; accept
		// reaching the range/loop that contains the call) — checked as: exit not reachable avoiding cleanup,
		// unless the only way to skip it is an empty collection loop
		if tgt, path, found := (ssax.Search{Target: ssax.IsReturn, Avoid: cl, Edge: ssax.AndEdges(ssax.WorldEdge(nval, 0), skipEmptyLoops(f, cl))}).From(f, adds[0]); found && !bad {
			r.Violate(rule, construct, r.pos(tgt), fmt.Sprintf("when the count reaches zero the exit at %s is reachable without the cleanup (%s): resources leak", r.pos(tgt), blocksStr(path)))
			bad = true
		}
		if !bad {
			r.Hold(rule, construct, r.fpos(f), "cleanup unreachable for counts 1,2; mandatory at 0")
		}
	}
	r.Floor(rule, 8)

	// part directory removed only when marked removable, after close
	for _, s := range sibsMST {
		rule := "c05.remove-only-removable"
		f := r.fn(rule, s.pkg, "(*partWrapper).decRef")
		if f == nil {
			continue
		}
		rm := NM{"async MustRMAll", func(in ssa.Instruction) bool {
			g, ok := in.(*ssa.Go)
			if !ok {
				return false
			}
			if mc, ok := g.Call.Value.(*ssa.MakeClosure); ok {
				return len(ssax.FindDeep(mc.Fn.(*ssa.Function), ssax.CallTo(fsMustRMAll))) > 0
			}
			if fn := g.Call.StaticCallee(); fn != nil {
				return len(ssax.FindDeep(fn, ssax.CallTo(fsMustRMAll))) > 0
			}
			return false
		}}
		direct := ssax.Find(f, ssax.CallTo(fsMustRMAll))
		construct := ssax.FuncName(f) + ": directory removal guarded by removable"
		if len(ssax.Find(f, rm.M)) == 0 && len(direct) == 0 {
			r.Violate(rule, construct, r.fpos(f), "no directory removal found")
			continue
		}
		rmAny := NM{"MustRMAll", ssax.Or(rm.M, ssax.CallTo(fsMustRMAll))}
		cond := "(*sync/atomic.Bool).Load(recv.removable)"
		if !ssax.HasCond(f, cond) {
			r.Violate(rule, construct, r.fpos(f), "no test of removable.Load() found; conditions: "+strings.Join(ssax.Conds(f), "; "))
			continue
		}
		if tgt, _, found := (ssax.Search{Target: rmAny.M, Edge: ssax.PruneCond(cond, true)}).From(f, nil); found {
			r.Violate(rule, construct, r.pos(tgt), "directory removal reachable when removable is false")
		} else {
			r.Hold(rule, construct, r.fpos(f), "removal only on the removable.Load()==true outcome")
		}
		r.neverBefore(rule, f, call("(*"+s.pkg+".part).close"), rmAny, nil)
	}

	// the removable flag is mutable state shared by every snapshot that lists the part: a pinned snapshot's
	// part set must not depend on it. It is read only by the release path (which decides the directory
	// removal) and by sidx' active-part accessor, whose result is only counted.
	{
		rule := "c05.removable-confined"
		n := 0
		for _, s := range sibsAll {
			for _, f := range r.P.ModuleFuncs(s.pkg) {
				base := r.fpos(f)
				if i := strings.LastIndex(base, "/"); i >= 0 {
					base = base[i+1:]
				}
				if strings.HasPrefix(base, "benchmark_") {
					continue
				}
				for _, in := range ssax.Find(f, func(in ssa.Instruction) bool {
					c, ok := in.(*ssa.Call)
					if !ok || ssax.CalleeName(c.Common()) != "(*sync/atomic.Bool).Load" || len(c.Call.Args) == 0 {
						return false
					}
					fv := ssax.FieldOf(c.Call.Args[0])
					return fv != nil && fv.Name() == "removable"
				}) {
					n++
					fname := ssax.FuncName(f)
					construct := "removable read in " + fname
					removes := len(ssax.FindDeep(f, func(x ssa.Instruction) bool {
						cc := ssax.Common(x)
						return cc != nil && strings.HasSuffix(ssax.CalleeName(cc), ".MustRMAll")
					})) > 0
					switch {
					case removes:
						r.Hold(rule, construct, r.pos(in), "release path: the flag decides the directory removal")
					case fname == "(*"+sibX.pkg+".Snapshot).getPartsAll":
						r.Hold(rule, construct, r.pos(in), "active-part accessor (callers confined below)")
					default:
						r.Violate(rule, construct, r.pos(in), "the part set a reader derives from a pinned snapshot depends on the removable flag, which a concurrent merge sets on parts of that same snapshot: the reader sees the merged part's inputs vanish (or sees neither) in the middle of its evaluation")
					}
				}
			}
		}
		if f := r.fn(rule, sibX.pkg, "(*Snapshot).getPartsAll"); f != nil {
			r.whoMayCall(rule, f, []string{"(*" + sibX.pkg + ".Snapshot).getPartCount"})
		}
		if f := r.fn(rule, sibX.pkg, "(*Snapshot).getPartCount"); f != nil {
			// counting only: statistics, String, and the start-up "anything loaded" test
			r.whoMayCall(rule, f, []string{"(*" + sibX.pkg + ".Snapshot).String", "(*" + sibX.pkg + ".sidx).Stats", "(*" + sibX.pkg + ".sidx).loadSnapshot"})
		}
		r.Floor(rule, 5)
	}

	// the merged-id set handed to mergePartsThenSendIntroduction is retained by the (pooled) introduction:
	// the caller gives it away and must not mutate it afterwards
	{
		rule := "c05.merged-set-owned"
		n := 0
		isMut := func(m func(ssa.Value) bool) ssax.Matcher {
			return func(in ssa.Instruction) bool {
				switch x := in.(type) {
				case *ssa.MapUpdate:
					return m(x.Map)
				case *ssa.Call:
					if b, ok := x.Call.Value.(*ssa.Builtin); ok && (b.Name() == "delete" || b.Name() == "clear") && len(x.Call.Args) > 0 {
						return m(x.Call.Args[0])
					}
				}
				return false
			}
		}
		for _, s := range sibsMST {
			for _, f := range r.P.ModuleFuncs(s.pkg) {
				base := r.fpos(f)
				if i := strings.LastIndex(base, "/"); i >= 0 {
					base = base[i+1:]
				}
				if strings.HasPrefix(base, "benchmark_") {
					continue
				}
				for _, in := range ssax.Find(f, func(in ssa.Instruction) bool {
					c, ok := in.(*ssa.Call)
					return ok && strings.HasPrefix(ssax.CalleeName(c.Common()), "(*"+s.pkg+".tsTable).mergePartsThenSendIntroduction")
				}) {
					if strings.HasPrefix(ssax.FuncName(f), "(*"+s.pkg+".tsTable).mergePartsThenSendIntroduction") {
						continue // the wrapper forwarding to the Observed variant
					}
					var arg ssa.Value
					for _, a := range in.(*ssa.Call).Call.Args {
						if _, ok := a.Type().Underlying().(*types.Map); ok {
							arg = a
						}
					}
					if arg == nil {
						continue
					}
					n++
					construct := fmt.Sprintf("%s: merged-id set handed over at call #%d is not mutated afterwards", ssax.FuncName(f), n)
					// (a) a value of this function
					same := func(v ssa.Value) bool { return v == arg }
					var cell ssa.Value
					if u, ok := arg.(*ssa.UnOp); ok && u.Op == token.MUL {
						cell = u.X
						same = func(v ssa.Value) bool {
							l, ok := v.(*ssa.UnOp)
							return v == arg || ok && l.Op == token.MUL && l.X == cell
						}
					}
					if tgt, _, found := (ssax.Search{Target: isMut(same)}).From(f, in); found {
						r.Violate(rule, construct, r.pos(in), fmt.Sprintf("the map given to the introduction at %s is written again at %s: the pooled introduction (and the introducer applying it) aliases the caller's working set", r.pos(in), r.pos(tgt)))
						continue
					}
					// (b) a variable captured from the enclosing function: look at what the parent does after calling the closure
					bad := ""
					if fv, ok := cell.(*ssa.FreeVar); ok && f.Parent() != nil {
						par := f.Parent()
						idx := -1
						for i, x := range f.FreeVars {
							if x == fv {
								idx = i
							}
						}
						for _, mc := range ssax.Find(par, func(in ssa.Instruction) bool {
							m, ok := in.(*ssa.MakeClosure)
							return ok && m.Fn == f
						}) {
							pcell := mc.(*ssa.MakeClosure).Bindings[idx]
							psame := func(v ssa.Value) bool {
								l, ok := v.(*ssa.UnOp)
								return ok && l.Op == token.MUL && l.X == pcell
							}
							for _, cs := range ssax.Find(par, func(in ssa.Instruction) bool {
								c, ok := in.(*ssa.Call)
								return ok && c.Call.Value == mc.(*ssa.MakeClosure)
							}) {
								if tgt, _, found := (ssax.Search{Target: isMut(psame)}).From(par, cs); found {
									bad = fmt.Sprintf("the map given to the introduction at %s is the enclosing function's variable, which %s writes again at %s after the hand-over at %s: the pooled introduction (and the introducer applying it) aliases the caller's working set, and resetting either empties the other", r.pos(in), ssax.FuncName(par), r.pos(tgt), r.pos(cs))
								}
							}
						}
					}
					if bad != "" {
						r.Violate(rule, construct, r.pos(in), bad)
					} else {
						r.Hold(rule, construct, r.pos(in), "")
					}
				}
			}
		}
		r.Floor(rule, 7)
	}
}

// skipEmptyLoops: when cleanup calls sit in a range loop, the loop's "done" edge taken before any
// iteration is not a way to skip cleanup (nothing to clean): prune the exit edge of a loop header whose
// body contains a cleanup call, but only from the header's first visit — approximated by pruning the
// done-edge of headers that dominate a cleanup call.
func skipEmptyLoops(f *ssa.Function, cl ssax.Matcher) ssax.EdgeFilter {
	var bodies []*ssa.BasicBlock
	for _, in := range ssax.Find(f, cl) {
		bodies = append(bodies, in.Block())
	}
	return func(from *ssa.BasicBlock, succ int) bool {
		if len(from.Succs) != 2 {
			return true
		}
		for _, b := range bodies {
			// from is a loop header if it dominates b and b can reach from
			if from != b && from.Dominates(b) && (from.Succs[0] == b || from.Succs[0].Dominates(b)) && succ == 1 && strings.Contains(from.Comment, "loop") {
				return false
			}
		}
		return true
	}
}

func (r *R) pinRules() {
	rule := "c05.pin-released"
	total := 0
	for _, s := range sibsAll {
		k := snapshotKind(s.pkg)
		var acqs []*ssa.Function
		recv := "(*tsTable)"
		if s.tag == "X" {
			recv = "(*sidx)"
		}
		for _, n := range []string{"currentSnapshot", "CurrentSnapshot"} {
			if f := r.P.Func(s.pkg, recv+"."+n); f != nil {
				acqs = append(acqs, f)
			}
		}
		if len(acqs) == 0 {
			r.Undecide(rule, s.pkg+": currentSnapshot", "", "acquire function no longer resolves")
			continue
		}
		var sites []ssa.Instruction
		for _, a := range acqs {
			sites = append(sites, r.callersOf(a)...)
		}
		pause := r.P.Func(s.pkg, "(*tsTable).pauseFlusherToPileupMemPartsWithMerge")
		if pause != nil {
			sites = append(sites, r.callersOf(pause)...)
			// the helper owns its snapshot parameter from entry: released or returned on every exit
			res := pair.Analyze(k, pause, nil, []ssa.Value{pause.Params[1]}, nil)
			construct := ssax.FuncName(pause) + ": owned parameter " + pause.Params[1].Name()
			if res.LeakExit != nil {
				r.Violate("c05.param-owned", construct, r.pos(res.LeakExit), fmt.Sprintf("the snapshot handed over by the caller can reach the exit at %s without being released or returned (%s)", r.pos(res.LeakExit), blocksStr(res.LeakPath)))
			} else {
				r.Hold("c05.param-owned", construct, r.fpos(pause), "released or returned on every exit")
			}
		} else if s.tag != "X" {
			r.Undecide("c05.param-owned", s.pkg+".(*tsTable).pauseFlusherToPileupMemPartsWithMerge", "", "ownership-table entry no longer resolves")
		}
		sort.Slice(sites, func(i, j int) bool { return sites[i].Pos() < sites[j].Pos() })
		perFn := map[string]int{}
		for _, site := range sites {
			if _, ok := site.(*ssa.Call); !ok {
				continue
			}
			fname := ssax.FuncName(site.Parent())
			if p := r.pos(site); strings.Contains(p, "/benchmark_") {
				r.Stat("pin_sites_in_benchmark_harness_skipped", 1)
				continue // benchmark harness files are outside the serving lifecycle (same exemption as C04)
			}
			if fname == "(*"+s.pkg+".tsTable).currentSnapshot" {
				continue // trace's currentSnapshot wraps CurrentSnapshot and returns it
			}
			perFn[fname]++
			construct := fmt.Sprintf("%s: pin#%d", fname, perFn[fname])
			total++
			resIdx := -1
			if pause != nil && site.(*ssa.Call).Call.StaticCallee() == pause {
				resIdx = 0
			}
			res := pair.AnalyzeCall(k, site, resIdx, -1)
			var evs []string
			for _, e := range res.Events {
				evs = append(evs, e.What)
			}
			sort.Strings(evs)
			switch {
			case res.LeakExit != nil:
				r.Violate(rule, construct, r.pos(site), fmt.Sprintf("snapshot pinned at %s can reach the exit at %s without being released or handed over (%s); events seen: %v", r.pos(site), r.pos(res.LeakExit), blocksStr(res.LeakPath), evs))
			case res.Double[0] != nil:
				r.Violate(rule, construct, r.pos(site), fmt.Sprintf("snapshot released at %s and again at %s on one path", r.pos(res.Double[0]), r.pos(res.Double[1])))
			case res.UseAfter[0] != nil:
				r.Violate(rule, construct, r.pos(res.UseAfter[1]), fmt.Sprintf("snapshot pinned at %s is released at %s but still used at %s: once the pin is dropped a concurrent flush/merge may release its parts", r.pos(site), r.pos(res.UseAfter[0]), r.pos(res.UseAfter[1])))
			default:
				r.Hold(rule, construct, r.pos(site), "events: "+strings.Join(evs, ","))
			}
			// a pin appended to a local collection: the collection is then the owner — it must be released
			// element-wise, returned or stored on every exit
			for _, e := range res.Events {
				if e.What != "append" {
					continue
				}
				ac := pair.AppendCallOf(e.In)
				if ac == nil {
					continue
				}
				cres := pair.Analyze(k, site.Parent(), ac, []ssa.Value{ac}, nil)
				cconstruct := fmt.Sprintf("%s: collection of pin#%d", fname, perFn[fname])
				if cres.LeakExit != nil {
					r.Violate("c05.collection-released", cconstruct, r.pos(ac), fmt.Sprintf("snapshots collected at %s can reach the exit at %s without being released, returned or stored (%s)", r.pos(ac), r.pos(cres.LeakExit), blocksStr(cres.LeakPath)))
				} else {
					r.Hold("c05.collection-released", cconstruct, r.pos(ac), "released element-wise, returned or stored on every exit")
				}
			}
			for _, o := range res.Owners {
				r.Note("owner %s <- %s", o, construct)
			}
		}
	}
	r.Stat("snapshot_pin_sites", total)
	r.Floor(rule, 60)
	r.Floor("c05.param-owned", 3)

	// direct increments of a snapshot's count are acquires too: the incremented snapshot must be returned,
	// stored as the table's current snapshot, or released
	rule = "c05.incref-paired"
	n := 0
	for _, s := range sibsAll {
		k := snapshotKind(s.pkg)
		incs := map[string]bool{}
		for _, t := range []string{"snapshot", "Snapshot"} {
			for _, m := range []string{"incRef", "IncRef", "acquire"} {
				incs["(*"+s.pkg+"."+t+")."+m] = true
			}
		}
		for _, f := range r.P.ModuleFuncs(s.pkg) {
			fname := ssax.FuncName(f)
			if incs[fname] {
				continue // incRef wrapping IncRef
			}
			for _, in := range ssax.Find(f, func(in ssa.Instruction) bool {
				c, ok := in.(*ssa.Call)
				return ok && incs[ssax.CalleeName(c.Common())]
			}) {
				n++
				recv := in.(*ssa.Call).Call.Args[0]
				roots := []ssa.Value{recv}
				if p := ssax.Path(recv); strings.Contains(p, ".") {
					// other loads of the same field path denote the same snapshot (under the table lock)
					for _, b := range f.Blocks {
						for _, x := range b.Instrs {
							if v, ok := x.(ssa.Value); ok && v != recv && ssax.Path(v) == p && v.Type() == recv.Type() {
								roots = append(roots, v)
							}
						}
					}
				}
				res := pair.Analyze(k, f, in, roots, nil)
				construct := fname + ": " + ssax.CalleeName(ssax.Common(in)) + " on " + ssax.Path(recv)
				var evs []string
				for _, e := range res.Events {
					evs = append(evs, e.What)
				}
				sort.Strings(evs)
				if res.LeakExit != nil {
					r.Violate(rule, construct, r.pos(in), fmt.Sprintf("count incremented at %s, exit at %s reachable without returning, publishing or releasing the snapshot (%s); events %v", r.pos(in), r.pos(res.LeakExit), blocksStr(res.LeakPath), evs))
				} else {
					r.Hold(rule, construct, r.pos(in), "events: "+strings.Join(evs, ","))
				}
			}
		}
	}
	r.Floor(rule, 9)
}
