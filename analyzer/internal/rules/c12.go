package rules

import (
	"fmt"
	"go/constant"
	"go/token"
	"go/types"
	"sort"
	"strings"

	"golang.org/x/tools/go/ssa"

	"bvcheck/internal/core"
	"bvcheck/internal/ssax"
)

func init() {
	register(&core.Property{
		ID:    "C12",
		Title: "Sort-key encodings preserve order; series identity is unambiguous",
		Decides: "the series-key escaping is consistent: a raw (unescaped) copy of a value in marshalEntityValue happens only after the value was searched for BOTH special bytes, the byte set escaped by the slow path equals the set the fast path searches for and the set unmarshalEntityValue treats specially, and every marshalled value ends with the delimiter; " +
			"the ordered float encoder picks its branch from the bit pattern and never by a float comparison (IEEE comparison cannot tell -0.0 from 0 nor place NaN, while the decoder branches on the top bit); tag-value marshal and unmarshal handle the same value types; a decoded byte-slice value never aliases the caller's scratch buffer; series keys are only built through marshalEntityValue.",
		NotDecided: "order preservation of Int64ToBytes / Float64ToOrderedBytes as bit-level arithmetic (only the branch selector of the float encoder is checked), the field names handed to the search library's sort parser (F48), injectivity as such, grouping keys built by String().",
		Technique:  "must-precede on resolved calls, constant-set agreement over compared bytes, case-set agreement, SSA alias check of returned slices, who-may-call",
		Run:        runC12,
	})
}

// byteConstsComparedWith: integer constants compared (==, !=) with values satisfying isElem in fn.
func byteConstsCompared(fn *ssa.Function, isElem func(ssa.Value) bool) []string {
	set := map[string]bool{}
	for _, b := range fn.Blocks {
		for _, in := range b.Instrs {
			bo, ok := in.(*ssa.BinOp)
			if !ok || (bo.Op != token.EQL && bo.Op != token.NEQ) {
				continue
			}
			var k *ssa.Const
			if c, ok := bo.Y.(*ssa.Const); ok && isElem(bo.X) {
				k = c
			} else if c, ok := bo.X.(*ssa.Const); ok && isElem(bo.Y) {
				k = c
			}
			if k != nil && k.Value != nil && k.Value.Kind() == constant.Int {
				set[k.Value.ExactString()] = true
			}
		}
	}
	var out []string
	for s := range set {
		out = append(out, s)
	}
	sort.Strings(out)
	return out
}

func runC12(c *core.Ctx) {
	r := newR(c)
	const pb = "pkg/pb/v1"
	rule := "c12.escape-agreement"
	isByteElemOf := func(param string) func(ssa.Value) bool {
		return func(v ssa.Value) bool {
			ld, ok := v.(*ssa.UnOp)
			if !ok || ld.Op != token.MUL {
				return false
			}
			ia, ok := ld.X.(*ssa.IndexAddr)
			if !ok {
				return false
			}
			bt, ok := ld.Type().Underlying().(*types.Basic)
			return ok && bt.Kind() == types.Uint8 && (flowsFromParamNamed(ia.X, param, 0))
		}
	}
	var fastSet, slowSet, decSet []string
	if f := r.fn(rule, pb, "marshalEntityValue"); f != nil {
		// fast path searches
		idx := map[string]ssa.Instruction{}
		for _, in := range ssax.Find(f, ssax.CallTo("bytes.IndexByte")) {
			cl := in.(*ssa.Call)
			if k, ok := cl.Call.Args[1].(*ssa.Const); ok && ssax.Path(cl.Call.Args[0]) == "arg1" {
				idx[k.Value.ExactString()] = in
			}
		}
		for k := range idx {
			fastSet = append(fastSet, k)
		}
		sort.Strings(fastSet)
		slowSet = byteConstsCompared(f, isByteElemOf("arg1"))
		// raw copies of src bytes: append(dest, src...) / append(dest, src[a:b]...)
		raw := NM{"raw copy of src", func(in ssa.Instruction) bool {
			cl, ok := in.(*ssa.Call)
			if !ok {
				return false
			}
			b, ok := cl.Call.Value.(*ssa.Builtin)
			if !ok || b.Name() != "append" || len(cl.Call.Args) != 2 || len(ssax.AppendedValues(in)) > 0 {
				return false
			}
			return flowsFromParamNamed(cl.Call.Args[1], "arg1", 0)
		}}
		if len(ssax.Find(f, raw.M)) > 0 {
			for _, k := range fastSet {
				in := idx[k]
				r.neverBefore(rule, f, NM{"IndexByte(src, " + k + ")", func(x ssa.Instruction) bool { return x == in }}, raw, nil)
				// and the raw copy is unreachable when that search found the byte (result ≥ 0)
				if tgt, _, found := (ssax.Search{Target: raw.M, Edge: ssax.WorldEdge(in.(*ssa.Call), 0)}).From(f, in); found {
					r.Violate(rule, fmt.Sprintf("%s: no raw copy when byte %s is present", ssax.FuncName(f), k), r.pos(tgt), "the value is copied unescaped although it contains a special byte: two different entities can produce the same series key")
				} else {
					r.Hold(rule, fmt.Sprintf("%s: no raw copy when byte %s is present", ssax.FuncName(f), k), r.fpos(f), "")
				}
			}
		}
		r.sameSet(rule, "marshalEntityValue: bytes searched by the fast path = bytes escaped by the slow path", r.fpos(f), "fast path", fastSet, "slow path", slowSet, false)
		// every exit appends the delimiter last
		delim := NM{"append delimiter", func(in ssa.Instruction) bool {
			for _, v := range ssax.AppendedValues(in) {
				if k, ok := v.(*ssa.Const); ok && k.Value != nil && k.Value.ExactString() == "124" {
					return true
				}
			}
			return false
		}}
		r.mustSeq(rule, f, exitAny, nil, delim)
	}
	if f := r.fn(rule, pb, "unmarshalEntityValue"); f != nil {
		decSet = byteConstsCompared(f, isByteElemOf("arg1"))
		r.sameSet(rule, "unmarshalEntityValue special bytes = bytes escaped by marshalEntityValue", r.fpos(f), "decoder", decSet, "encoder", slowSet, false)
	}
	r.Floor(rule, 6)

	// value-type tables
	rule = "c12.value-type-tables"
	if m, u := r.fn(rule, pb, "marshalTagValue"), r.fn(rule, pb, "unmarshalTagValue"); m != nil && u != nil {
		// marshal discriminates on the oneof wrapper types, unmarshal on ValueType tags: compare the ValueType
		// constants each side mentions (marshal writes them as the leading tag byte)
		// marshal discriminates on the oneof wrapper types and writes MustTagValueToValueType(tv) as the tag byte;
		// unmarshal dispatches on that byte: the image of marshal's case types must be cases of unmarshal
		uset := r.pkgConstsUsed(u, "ValueType", true)
		var mset []string
		if mapper := r.fn(rule, pb, "MustTagValueToValueType"); mapper != nil {
			tm := r.typeSwitchReturns(mapper)
			for t := range r.caseConsts(m, "", true).names {
				if c, ok := tm[t]; ok && c != "" {
					mset = append(mset, c)
				} else {
					r.Violate(rule, "marshalTagValue case "+t+" has a value-type tag", r.fpos(m), "marshalTagValue accepts a value kind for which MustTagValueToValueType yields no tag")
				}
			}
			sort.Strings(mset)
		}
		r.sameSet(rule, "value-type tags written by marshalTagValue ⊆ unmarshalTagValue cases", r.fpos(u), "marshalTagValue", mset, "unmarshalTagValue", uset, true)
	}

	// decoded byte slices do not alias the scratch buffer
	rule = "c12.no-scratch-alias"
	if f := r.fn(rule, pb, "unmarshalTagValue"); f != nil {
		n := 0
		for _, in := range ssax.Find(f, func(in ssa.Instruction) bool {
			st, ok := in.(*ssa.Store)
			return ok && strings.HasSuffix(ssax.FieldQName(st.Addr), "TagValue_BinaryData.BinaryData")
		}) {
			n++
			v := in.(*ssa.Store).Val
			_, fresh := v.(*ssa.MakeSlice)
			if cl, ok := v.(*ssa.Call); ok {
				nm := ssax.CalleeName(cl.Common())
				fresh = nm == "bytes.Clone" || nm == "slices.Clone" || nm == "builtin:append" && ssax.IsNilConst(cl.Call.Args[0])
			}
			r.Check(fresh, rule, fmt.Sprintf("%s: BinaryData #%d is a fresh copy", ssax.FuncName(f), n), r.pos(in), "the decoded bytes are returned in a TagValue that outlives the call while the scratch buffer (dest) is reused for the next value: aliasing it corrupts earlier values and changes the re-marshalled series id")
		}
		if n == 0 {
			r.Undecide(rule, ssax.FuncName(f), r.fpos(f), "no BinaryData assignment found")
		}
	}

	// the ordered float encoder and its decoder must split the value space the same way: the decoder looks at the
	// top bit, so the encoder must too. Any IEEE comparison of the float itself treats -0.0 as 0 and is false for
	// NaN, so a branch selected by one cannot agree with the decoder (F49).
	rule = "c12.ordered-float-branches-on-bits"
	if f := r.fn(rule, "pkg/convert", "Float64ToOrderedBytes"); f != nil {
		isFloat := func(v ssa.Value) bool {
			b, ok := v.Type().Underlying().(*types.Basic)
			return ok && b.Info()&types.IsFloat != 0
		}
		bad := ssax.Find(f, func(in ssa.Instruction) bool {
			b, ok := in.(*ssa.BinOp)
			if !ok {
				return false
			}
			switch b.Op {
			case token.LSS, token.LEQ, token.GTR, token.GEQ, token.EQL, token.NEQ:
				return isFloat(b.X) || isFloat(b.Y)
			}
			return false
		})
		con := ssax.FuncName(f) + ": branch selected from the bit pattern"
		if len(bad) > 0 {
			r.Violate(rule, con, r.pos(bad[0]), "the encoder compares the float value itself: -0.0 compares equal to 0 and NaN compares false, so they take a branch the decoder (which tests the top bit) does not invert; -0.0 then sorts below -Inf and decodes to NaN")
		} else {
			r.Hold(rule, con, r.fpos(f), "")
		}
	}
	r.Floor(rule, 1)

	// series keys only through marshalEntityValue
	if f := r.fn("c12.single-key-builder", pb, "marshalEntityValue"); f != nil {
		r.whoMayCall("c12.single-key-builder", f, []string{pb + ".marshalTagValue", pb + ".marshalTagValueWithWildcard", "(" + pb + ".Entity).Marshal", "(*" + pb + ".Series).Marshal", "(*" + pb + ".Series).MarshalWithWildcard", pb + ".MarshalTagValues"})
	}
}
