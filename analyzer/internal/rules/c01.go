package rules

import (
	"fmt"
	"go/token"
	"go/types"
	"sort"
	"strings"

	"golang.org/x/tools/go/ssa"

	"bvcheck/internal/core"
	"bvcheck/internal/ssax"
)

func init() {
	register(&core.Property{
		ID:    "C01",
		Title: "Acknowledged writes are returned exactly as written",
		Decides: "the acknowledgement chain is synchronous: a batch's introduction is published before its waiter is released (close(applied) only after the snapshot replacement, or after recording a rejection), mustAddMemPart returns only after receiving from applied or after undoing the batch, the in-process publisher's Close waits for the future, the liaison replies only after publisher.Close() and does not reply SUCCEED for a batch whose Close reported an error; " +
			"value-type tables agree between the write path, the column/tag encoders and every decoder (row and batch); the row-parallel slices of a batch (series ids, timestamps, versions, tags, fields, …) are all touched by Swap / skip / reset, so sorting and de-duplication never re-label rows.; in the six data-node receive loops an event that switches the metadata also replaces or clears the spec carried over from earlier events of the batch (a point is decoded with the spec in force for its own resource)",
		NotDecided: "bit-exact equality of returned values (the 1-ulp decimal float case), criteria coverage, 'returns nothing that was not written', block-split arithmetic.",
		Technique:  "CFG must-precede on channel operations and resolved calls, phi-edge constant analysis of reply codes, case-set agreement across writer/encoder/decoder siblings, struct-field coverage of parallel arrays; per-iteration path enumeration of paired loop-carried updates (metadata ⇒ spec)",
		Run:        runC01,
	})
}

func isRecvOn(field string) ssax.Matcher {
	return func(in ssa.Instruction) bool {
		u, ok := in.(*ssa.UnOp)
		return ok && u.Op == token.ARROW && strings.HasSuffix(ssax.Path(u.X), "."+field)
	}
}

func runC01(c *core.Ctx) {
	r := newR(c)
	// 0. the receive loops decode a point with the spec in force for ITS metadata: an event that switches
	// the metadata also replaces (or clears) the spec carried over from earlier events of the batch
	for _, s := range sibsMST {
		for _, typ := range []string{"writeCallback", "writeQueueCallback"} {
			if f := r.fn("c01.spec-follows-metadata", s.pkg, "(*"+typ+").Rev"); f != nil {
				r.pairedLoopUpdateSel("c01.spec-follows-metadata", f, "the metadata", "the spec",
					func(p *ssa.Phi) bool {
						return strings.HasSuffix(p.Type().String(), "common/v1.Metadata") && flowsFromCallSuffix(p, ").GetMetadata", 0)
					},
					func(p *ssa.Phi) bool {
						return strings.Contains(p.Type().String(), "Spec") && (flowsFromCallSuffix(p, ").GetDataPointSpec", 0) || flowsFromCallSuffix(p, ").GetTagFamilySpec", 0) || flowsFromCallSuffix(p, ").GetTagSpec", 0))
					},
					"the point of the new resource is decoded through the previous resource's spec (tag and field positions of another schema): what is stored and indexed is not what was written")
			}
		}
	}
	r.Floor("c01.spec-follows-metadata", 6)
	// 1a. mustAddMemPart / mustAddFilePart wait for applied (or undo)
	for _, s := range sibsMST {
		for _, name := range []string{"(*tsTable).mustAddMemPart", "(*tsTable).mustAddFilePart"} {
			rule := "c01.wait-for-applied"
			f := r.fn(rule, s.pkg, name)
			if f == nil {
				continue
			}
			sel := ssax.Find(f, func(in ssa.Instruction) bool { _, ok := in.(*ssa.Select); return ok })
			construct := ssax.FuncName(f) + ": returns only after <-applied, or after releasing the part on shutdown"
			if len(sel) != 1 {
				r.Violate(rule, construct, r.fpos(f), fmt.Sprintf("expected one select submitting the introduction, found %d", len(sel)))
				continue
			}
			done := ssax.Or(isRecvOn("applied"), ssax.CallTo("(*"+s.pkg+".partWrapper).decRef"))
			if tgt, path, found := (ssax.Search{Target: ssax.IsReturn, Avoid: done}).From(f, sel[0]); found {
				r.Violate(rule, construct, r.pos(tgt), fmt.Sprintf("the writer can return at %s without waiting for the introducer (%s): the batch would be acknowledged before queries can see it", r.pos(tgt), blocksStr(path)))
			} else {
				r.Hold(rule, construct, r.fpos(f), "")
			}
			// the wait is on the introduction that was submitted
			r.neverBefore(rule, f, NM{"select{introductions<-ind}", func(in ssa.Instruction) bool { return in == sel[0] }}, NM{"<-applied", isRecvOn("applied")}, nil)
		}
		// 1b. close(applied) only after publication (or a recorded rejection)
		names := []string{"introducePart", "introduceFlushed", "introduceMerged", "introduceSync"}
		if s.tag == "T" {
			names = append(names, "introduceFlushedForSync")
		}
		for _, n := range names {
			rule := "c01.ack-after-publish"
			f := r.fn(rule, s.pkg, "(*tsTable)."+n)
			if f == nil {
				continue
			}
			publish := NM{"publish|reject", ssax.Or(ssax.CallTo("(*"+s.pkg+".tsTable).replaceSnapshot", "(*"+s.pkg+".tsTable).commitSnapshotTransaction"), ssax.StoreTo(s.pkg+".mergerIntroduction.resultErr", nil))}
			r.neverBefore(rule, f, publish, closeOfField("applied"), nil)
		}
	}
	r.Floor("c01.wait-for-applied", 12)
	r.Floor("c01.ack-after-publish", 13)

	// 1c. local publisher waits for the future
	if f := r.fn("c01.local-close-waits", "banyand/queue", "(*localBatchPublisher).Close"); f != nil {
		rule := "c01.local-close-waits"
		pub := ssax.Find(f, ssax.CallTo("(*pkg/bus.Bus).Publish"))
		construct := ssax.FuncName(f) + ": with a future, success is reported only after Get()"
		if len(pub) != 1 {
			r.Violate(rule, construct, r.fpos(f), "expected one bus.Publish call")
		} else {
			var fut ssa.Value
			for _, ref := range *pub[0].(*ssa.Call).Referrers() {
				if ex, ok := ref.(*ssa.Extract); ok && ex.Index == 0 {
					fut = ex
				}
			}
			haveFuture := func(from *ssa.BasicBlock, succ int) bool {
				iff, ok := from.Instrs[len(from.Instrs)-1].(*ssa.If)
				if !ok {
					return true
				}
				bo, ok := iff.Cond.(*ssa.BinOp)
				if !ok || bo.X != fut || !ssax.IsNilConst(bo.Y) {
					return true
				}
				if bo.Op == token.EQL {
					return succ == 1
				}
				return succ == 0
			}
			get := ssax.CallTo("iface:(pkg/bus.Future).Get")
			okExit := ssax.SuccessExit(f)
			cleanSuccess := func(in ssa.Instruction) bool { // (nil, nil): no per-node error map and no error
				ret, isRet := in.(*ssa.Return)
				return isRet && okExit(in) && ssax.IsNilConst(ssax.Unspill(ret.Results[0], ret))
			}
			if tgt, _, found := (ssax.Search{Target: cleanSuccess, Avoid: get, Edge: haveFuture}).From(f, pub[0]); found {
				r.Violate(rule, construct, r.pos(tgt), "Close can report success without waiting for the published batch to be processed")
			} else {
				r.Hold(rule, construct, r.fpos(f), "")
			}
		}
	}

	// 1d. liaison replies after Close; no SUCCEED when Close failed
	const lg = "banyand/liaison/grpc"
	nclose := 0
	for _, f := range r.P.ModuleFuncs(lg) {
		closes := ssax.Find(f, func(in ssa.Instruction) bool {
			cl, ok := in.(*ssa.Call)
			return ok && ssax.CalleeName(cl.Common()) == "iface:(banyand/queue.BatchPublisher).Close" && cl.Type().String() != "()" && len(*cl.Referrers()) > 0
		})
		replies := ssax.Find(f, func(in ssa.Instruction) bool {
			cl, ok := in.(*ssa.Call)
			return ok && strings.HasSuffix(ssax.CalleeName(cl.Common()), ").sendReply")
		})
		if len(closes) != 1 || len(replies) == 0 {
			continue
		}
		nclose++
		rule := "c01.reply-after-close"
		r.neverBefore(rule, f, NM{"publisher.Close()", func(in ssa.Instruction) bool { return in == closes[0] }}, NM{"sendReply", func(in ssa.Instruction) bool {
			for _, x := range replies {
				if x == in {
					return true
				}
			}
			return false
		}}, nil)
		// reply code: when Close returned an error the code must not default to SUCCEED
		rule = "c01.no-ack-on-failed-close"
		var errv ssa.Value
		for _, ref := range *closes[0].(*ssa.Call).Referrers() {
			if ex, ok := ref.(*ssa.Extract); ok && ex.Index == 1 {
				errv = ex
			}
		}
		construct := ssax.FuncName(f) + ": a failed publisher.Close() is not acknowledged as SUCCEED"
		ok := false
		if errv != nil {
			// some constant edge of the code phi comes from a block dominated by the err != nil outcome
			for _, rep := range replies {
				var edges []phiEdge
				collectPhiConsts(rep.(*ssa.Call).Call.Args[2], &edges, map[ssa.Value]bool{}, 0)
				for _, e := range edges {
					if e.k == nil || e.k.Value == nil {
						continue
					}
					if e.k.Value.ExactString() == "1" { // STATUS_SUCCEED
						continue
					}
					if dominatedByErrNonNil(e.pred, errv) {
						ok = true
					}
				}
			}
		}
		if ok {
			r.Hold(rule, construct, r.pos(closes[0]), "a non-success status is assigned on the err != nil outcome")
		} else {
			r.Violate(rule, construct, r.pos(closes[0]), "when Close() returns (nil, err) — e.g. the in-process pipeline is shutting down — every message of the batch is still answered with STATUS_SUCCEED although nothing was applied: an acknowledged write is lost")
		}
	}
	if nclose < 3 {
		r.Undecide("c01.reply-after-close", "liaison write handlers", "", fmt.Sprintf("only %d handlers pairing publisher.Close() with sendReply found", nclose))
	}

	// 2. value-type tables
	{
		rule := "c01.value-type-tables"
		cases := func(pkg, name string) ([]string, *ssa.Function) {
			f := r.fn(rule, pkg, name)
			if f == nil {
				return nil, nil
			}
			return without(r.caseConsts(f, "ValueType", false).list(), func(s string) bool { return s == "ValueTypeUnknown" }), f
		}
		assigned := func(pkg, name, field string) []string {
			f := r.fn(rule, pkg, name)
			if f == nil {
				return nil
			}
			byVal := r.constsByValue("pkg/pb/v1/valuetype", "ValueType")
			set := map[string]bool{}
			for _, in := range ssax.Find(f, func(in ssa.Instruction) bool {
				st, ok := in.(*ssa.Store)
				return ok && strings.HasSuffix(ssax.FieldQName(st.Addr), "."+field)
			}) {
				if k, ok := in.(*ssa.Store).Val.(*ssa.Const); ok && k.Value != nil {
					if n, ok := byVal[k.Value.ExactString()]; ok && n != "ValueTypeUnknown" {
						set[n] = true
					}
				}
			}
			var out []string
			for n := range set {
				out = append(out, n)
			}
			sort.Strings(out)
			return out
		}
		mw, _ := cases(sibM.pkg, "(*column).mustWriteTo")
		md, f1 := cases(sibM.pkg, "(*column).decodeColumnValues")
		if f1 != nil {
			r.sameSet(rule, "measure column: specially-encoded value types on write = on read", r.fpos(f1), "mustWriteTo", mw, "decodeColumnValues", md, false)
		}
		mt, f2 := cases(sibM.pkg, "mustDecodeTagValue")
		mf, f3 := cases(sibM.pkg, "mustDecodeFieldValue")
		st, f4 := cases(sibS.pkg, "mustDecodeTagValue")
		if f2 != nil {
			r.sameSet(rule, "measure: tag value types the writer assigns ⊆ mustDecodeTagValue cases", r.fpos(f2), "encodeTagValue", assigned(sibM.pkg, "encodeTagValue", "valueType"), "mustDecodeTagValue", mt, true)
			bt, _ := cases(sibM.pkg, "appendDecodedTagBytesAsTyped")
			r.sameSet(rule, "measure: row tag decoder cases ⊆ batch tag decoder cases", r.fpos(f2), "mustDecodeTagValue", mt, "appendDecodedTagBytesAsTyped", bt, true)
			bs, _ := cases(sibM.pkg, "setDecodedTagBytesAt")
			r.sameSet(rule, "measure: row tag decoder cases = in-place batch tag decoder cases", r.fpos(f2), "mustDecodeTagValue", mt, "setDecodedTagBytesAt", bs, false)
		}
		if f3 != nil {
			r.sameSet(rule, "measure: field value types the writer assigns ⊆ mustDecodeFieldValue cases", r.fpos(f3), "encodeFieldValue", assigned(sibM.pkg, "encodeFieldValue", "valueType"), "mustDecodeFieldValue", mf, true)
			bf, _ := cases(sibM.pkg, "appendDecodedFieldBytesAsTyped")
			r.sameSet(rule, "measure: row field decoder cases ⊆ batch field decoder cases", r.fpos(f3), "mustDecodeFieldValue", mf, "appendDecodedFieldBytesAsTyped", bf, true)
			bs, _ := cases(sibM.pkg, "setDecodedFieldBytesAt")
			r.sameSet(rule, "measure: row field decoder cases = in-place batch field decoder cases", r.fpos(f3), "mustDecodeFieldValue", mf, "setDecodedFieldBytesAt", bs, false)
		}
		if f4 != nil {
			r.sameSet(rule, "stream: tag value types the writer assigns ⊆ mustDecodeTagValue cases", r.fpos(f4), "encodeTagValue", assigned(sibS.pkg, "encodeTagValue", "valueType"), "mustDecodeTagValue", st, true)
			r.sameSet(rule, "measure and stream tag decoders handle the same value types", r.fpos(f4), "measure.mustDecodeTagValue", mt, "stream.mustDecodeTagValue", st, false)
		}
		r.Floor(rule, 8)
	}

	// 3. parallel arrays
	{
		rule := "c01.parallel-arrays"
		for _, spec := range []struct {
			pkg, typ string
			fns      []string
		}{{sibM.pkg, "dataPoints", []string{"Swap", "skip", "reset"}}, {sibS.pkg, "elements", []string{"Swap", "reset"}}, {sibT.pkg, "traces", []string{"Swap", "reset"}}, {sibX.pkg, "elements", []string{"Swap", "reset"}}} {
			pk := r.P.Pkg(spec.pkg)
			if pk == nil {
				continue
			}
			obj := pk.Types.Scope().Lookup(spec.typ)
			if obj == nil {
				r.Undecide(rule, spec.pkg+"."+spec.typ, "", "type not found")
				continue
			}
			st, ok := obj.Type().Underlying().(*types.Struct)
			if !ok {
				continue
			}
			var cols []string
			for i := 0; i < st.NumFields(); i++ {
				if _, isSlice := st.Field(i).Type().Underlying().(*types.Slice); isSlice {
					cols = append(cols, st.Field(i).Name())
				}
			}
			for _, fn := range spec.fns {
				f := r.fn(rule, spec.pkg, "(*"+spec.typ+")."+fn)
				if f == nil {
					continue
				}
				touched, _ := r.fieldsTouched(spec.pkg, f)
				var miss []string
				for _, c := range cols {
					if !touched[spec.pkg+"."+spec.typ+"."+c] {
						miss = append(miss, c)
					}
				}
				r.Check(len(miss) == 0, rule, fmt.Sprintf("%s touches every row-parallel column of %s", ssax.FuncName(f), spec.typ), r.fpos(f), fmt.Sprintf("columns %v; missing %v — a column left behind is re-labelled with another row's series/timestamp", cols, miss))
			}
		}
		r.Floor(rule, 9)
	}
}

type phiEdge struct {
	k    *ssa.Const
	pred *ssa.BasicBlock
}

// collectPhiConsts gathers the constant edges (with their predecessor blocks) that can flow into v.
func collectPhiConsts(v ssa.Value, out *[]phiEdge, seen map[ssa.Value]bool, d int) {
	if v == nil || seen[v] || d > 10 {
		return
	}
	seen[v] = true
	if phi, ok := v.(*ssa.Phi); ok {
		for i, e := range phi.Edges {
			if k, ok := e.(*ssa.Const); ok {
				*out = append(*out, phiEdge{k, phi.Block().Preds[i]})
			} else {
				collectPhiConsts(e, out, seen, d+1)
			}
		}
	}
}

// dominatedByErrNonNil: block b is dominated by the outcome "errv != nil" of a nil test on errv.
func dominatedByErrNonNil(b *ssa.BasicBlock, errv ssa.Value) bool {
	for x := b; x != nil; x = x.Idom() {
		id := x.Idom()
		if id == nil {
			break
		}
		iff, ok := id.Instrs[len(id.Instrs)-1].(*ssa.If)
		if !ok {
			continue
		}
		bo, ok := iff.Cond.(*ssa.BinOp)
		if !ok || bo.X != errv || !ssax.IsNilConst(bo.Y) {
			continue
		}
		nonNil := id.Succs[0]
		if bo.Op == token.EQL {
			nonNil = id.Succs[1]
		}
		if nonNil == b || nonNil.Dominates(b) || nonNil == x {
			return true
		}
	}
	// the predecessor block itself may be the If block (edge straight from the test)
	if iff, ok := b.Instrs[len(b.Instrs)-1].(*ssa.If); ok {
		if bo, ok := iff.Cond.(*ssa.BinOp); ok && bo.X == errv && ssax.IsNilConst(bo.Y) {
			return true
		}
	}
	return false
}
