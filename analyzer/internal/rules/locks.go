package rules

import (
	"fmt"
	"strings"
	"sync"

	"golang.org/x/tools/go/ssa"

	"bvcheck/internal/lockset"
	"bvcheck/internal/ssax"
)

var (
	lsMu   sync.Mutex
	lsMemo = map[*ssa.Function]*lockset.Result{}
)

func locksOf(fn *ssa.Function) *lockset.Result {
	lsMu.Lock()
	defer lsMu.Unlock()
	if r, ok := lsMemo[fn]; ok {
		return r
	}
	r := lockset.Compute(fn, nil)
	lsMemo[fn] = r
	return r
}

// translateKey rewrites a callee-relative lock key ("recv.mu", "arg1.RWMutex") into the caller's terms at
// the given call site; "" if the base is not a parameter.
func translateKey(key string, site ssa.Instruction) string {
	cc := ssax.Common(site)
	if cc == nil {
		return ""
	}
	base, rest, _ := strings.Cut(key, ".")
	callee := cc.StaticCallee()
	if callee == nil {
		return ""
	}
	off := 0
	if callee.Signature.Recv() != nil {
		off = 1
	}
	idx := -1
	if base == "recv" && off == 1 {
		idx = 0
	} else if strings.HasPrefix(base, "arg") {
		var n int
		if _, err := fmt.Sscanf(base, "arg%d", &n); err == nil {
			idx = n + off
		}
	}
	if idx < 0 || idx >= len(cc.Args) {
		return ""
	}
	p := ssax.Path(cc.Args[idx])
	if rest == "" {
		return p
	}
	return p + "." + rest
}

// heldAtEntry: at every static call site of fn, the lock key (callee-relative) is held in at least mode —
// locally at the site or, recursively (depth-bounded), at the caller's own entry. Functions with no call
// site, or that escape as values, are not "called with the lock held".
// syncCallbackTakers: functions that invoke their function-typed argument synchronously, on the calling
// goroutine, before returning — a lock held at the call is held inside the callback.
var syncCallbackTakers = map[string]bool{
	"sort.Slice": true, "sort.SliceStable": true, "sort.Search": true, "slices.SortFunc": true, "path/filepath.Walk": true,
	"banyand/internal/storage.loadSegments": true, "banyand/internal/storage.walkDir": true,
}

// heldInClosure: fn is a closure created in its parent and handed to a synchronous callback taker while
// the parent (or, recursively, the parent's callers) holds the lock.
func (r *R) heldInClosure(fn *ssa.Function, key string, mode, depth int) bool {
	parent := fn.Parent()
	if parent == nil || !strings.HasPrefix(key, "free:") {
		return false
	}
	name, rest, _ := strings.Cut(strings.TrimPrefix(key, "free:"), ".")
	fvIdx := -1
	for i, fv := range fn.FreeVars {
		if fv.Name() == name {
			fvIdx = i
		}
	}
	if fvIdx < 0 {
		return false
	}
	ok := false
	for _, b := range parent.Blocks {
		for _, in := range b.Instrs {
			mc, isMC := in.(*ssa.MakeClosure)
			if !isMC || mc.Fn != fn {
				continue
			}
			bind := mc.Bindings[fvIdx]
			base := ssax.Path(bind)
			if al, isAl := bind.(*ssa.Alloc); isAl {
				for _, ref := range *al.Referrers() {
					if st, isSt := ref.(*ssa.Store); isSt && st.Addr == al {
						if p, isP := st.Val.(*ssa.Parameter); isP {
							base = ssax.ParamName(p)
						}
					}
				}
			}
			pkey := base + "." + rest
			refs := mc.Referrers()
			if refs == nil {
				return false
			}
			for _, ref := range *refs {
				c, isCall := ref.(*ssa.Call)
				if !isCall || !syncCallbackTakers[ssax.CalleeName(c.Common())] {
					return false
				}
				if locksOf(parent).At(c)[pkey] >= mode {
					ok = true
					continue
				}
				if depth > 0 && parent.Parent() == nil {
					if held, _ := r.heldAtEntry(parent, pkey, mode, depth-1); held {
						ok = true
						continue
					}
				}
				return false
			}
		}
	}
	return ok
}

func (r *R) heldAtEntry(fn *ssa.Function, key string, mode, depth int) (bool, string) {
	ix := r.P.Index()
	sites := ix.CallSites[fn]
	if len(sites) == 0 {
		return false, "no static call site"
	}
	if len(ix.ValueRefs[fn]) > 0 {
		return false, "function escapes as a value at " + r.pos(ix.ValueRefs[fn][0])
	}
	for _, s := range sites {
		k := translateKey(key, s)
		if k == "" {
			return false, "lock base is not a parameter at " + r.pos(s)
		}
		if _, isGo := s.(*ssa.Go); isGo {
			return false, "started as a goroutine at " + r.pos(s)
		}
		st := locksOf(s.Parent()).At(s)
		if st[k] >= mode {
			continue
		}
		if _, isDefer := s.(*ssa.Defer); isDefer {
			return false, "deferred at " + r.pos(s)
		}
		if depth > 0 {
			if ok, _ := r.heldAtEntry(s.Parent(), k, mode, depth-1); ok {
				continue
			}
			if s.Parent().Parent() != nil && r.heldInClosure(s.Parent(), k, mode, depth-1) {
				continue
			}
		}
		return false, fmt.Sprintf("call at %s does not hold %s", r.pos(s), k)
	}
	return true, ""
}

// access describes one access to a guarded field.
type access struct {
	in    ssa.Instruction
	write bool
	base  string // access path of the struct the field is selected from
}

// fieldAccesses lists loads/stores of field q ("pkg.Type.field") in fn.
func fieldAccesses(fn *ssa.Function, q string) []access {
	var out []access
	for _, b := range fn.Blocks {
		for _, in := range b.Instrs {
			fa, ok := in.(*ssa.FieldAddr)
			if !ok || ssax.FieldQName(fa) != q {
				continue
			}
			base := ssax.Path(fa.X)
			refs := fa.Referrers()
			if refs == nil {
				continue
			}
			for _, ref := range *refs {
				switch x := ref.(type) {
				case *ssa.Store:
					if x.Addr == fa {
						out = append(out, access{x, true, base})
					}
				case *ssa.UnOp:
					out = append(out, access{x, false, base})
				default:
					// address escapes (atomic op, passed on): treat as a write
					if ri, ok := ref.(ssa.Instruction); ok {
						out = append(out, access{ri, true, base})
					}
				}
			}
		}
	}
	return out
}

// guardedField checks that every access to field q in the functions of pkgs holds the mutex
// <base>.<lockField> of the same struct value (write mode for writes). exempt maps function names to the
// one-line reason they may touch the field without the lock.
func (r *R) guardedField(rule, q, lockField string, pkgs []string, exempt map[string]string) int {
	n := 0
	for _, fn := range r.P.ModuleFuncs(pkgs...) {
		accs := fieldAccesses(fn, q)
		if len(accs) == 0 {
			continue
		}
		fname := ssax.FuncName(fn)
		outer := fn
		for outer.Parent() != nil {
			outer = outer.Parent()
		}
		ls := locksOf(fn)
		for i, a := range accs {
			n++
			kind := "read"
			mode := lockset.R
			if a.write {
				kind, mode = "write", lockset.W
			}
			construct := fmt.Sprintf("%s: %s#%d of %s", fname, kind, i+1, q)
			if why, ok := exempt[ssax.FuncName(outer)]; ok {
				r.Hold(rule, construct, r.pos(a.in), "exempt: "+why)
				continue
			}
			key := a.base + "." + lockField
			if ls.At(a.in)[key] >= mode {
				r.Hold(rule, construct, r.pos(a.in), "holds "+key)
				continue
			}
			if !strings.HasPrefix(a.base, "free:") && fn.Parent() == nil {
				if ok, _ := r.heldAtEntry(fn, key, mode, 4); ok {
					r.Hold(rule, construct, r.pos(a.in), "every caller holds "+key)
					continue
				}
			}
			if fn.Parent() != nil && r.heldInClosure(fn, key, mode, 4) {
				r.Hold(rule, construct, r.pos(a.in), "synchronous callback invoked while the parent holds the lock")
				continue
			}
			r.Violate(rule, construct, r.pos(a.in), fmt.Sprintf("%s of %s without holding %s (%s lock) of the same value", kind, q, key, map[int]string{1: "read", 2: "write"}[mode]))
		}
	}
	r.Stat("guarded_field_accesses", n)
	return n
}
