package rules

import (
	"fmt"
	"go/constant"
	"go/types"
	"reflect"
	"sort"
	"strings"

	"golang.org/x/tools/go/ssa"

	"bvcheck/internal/core"
	"bvcheck/internal/ssax"
)

func init() {
	register(&core.Property{
		ID:    "C20",
		Title: "Bound BydbQL parameters are data, never syntax",
		Decides: "every error exit of the one-shot binder that lies after an in-place slot write first marks the grammar, so a half-bound grammar can never be bound again with fewer parameters; no static call path leads from the binding / bound-transformation entry points back to the query parser; every grammar field tagged as a placeholder position (@Param) is read by both the one-shot binder traversal and the prepared-statement traversal; the per-position count bounds of the binder, the preparer and the literal-path validator agree; Bind's kind switch covers every placeholder kind and rejects a count mismatch and nil values before any slot is filled; " +
			"the prepared (cached) template is not written during Bind/TransformBound and value nodes are read through the overlay resolver on the bound path; the prepared-statement cache is keyed by the exact query text.; on both binding paths the error of every resolve*Param call reaches the caller: in the world where it is non-nil no success return and no further loop iteration is reachable (the error value is followed through phis, so a shadowed copy nobody looks at is reported); a bound timestamp is formatted with a layout that keeps the nanosecond field",
		NotDecided: "equality of the produced request with the literal-quoted statement, parser correctness, time-format validation details.",
		Technique:  "static call-graph unreachability, struct-tag vs field-read set agreement, constant-argument agreement across sibling traversals, local enum exhaustiveness, field-write confinement, SSA value identity of the cache key",
		Run:        runC20,
	})
}

// fieldsReadFrom: qualified names of struct fields read or addressed in functions reachable from roots
// through static calls inside package pkgRel.
func (r *R) fieldsTouched(pkgRel string, roots ...*ssa.Function) (map[string]bool, int) {
	seen := map[*ssa.Function]bool{}
	out := map[string]bool{}
	var visit func(f *ssa.Function)
	visit = func(f *ssa.Function) {
		if f == nil || seen[f] || len(f.Blocks) == 0 {
			return
		}
		seen[f] = true
		for _, b := range f.Blocks {
			for _, in := range b.Instrs {
				switch x := in.(type) {
				case *ssa.FieldAddr:
					out[ssax.FieldQName(x)] = true
				case *ssa.Field:
					out[ssax.FieldQName(x)] = true
				case *ssa.MakeClosure:
					visit(x.Fn.(*ssa.Function))
				}
				if cc := ssax.Common(in); cc != nil {
					if g := cc.StaticCallee(); g != nil && g.Pkg != nil && ssax.Short(g.Pkg.Pkg.Path()) == pkgRel {
						visit(g)
					}
				}
			}
		}
	}
	for _, f := range roots {
		visit(f)
	}
	return out, len(seen)
}

func runC20(c *core.Ctx) {
	r := newR(c)
	const ql = "pkg/bydbql"
	// 1. no way back to the parser
	rule := "c20.no-reparse"
	isParser := func(g *ssa.Function) bool {
		n := ssax.FuncName(g)
		return n == ql+".ParseQuery" || strings.Contains(n, "github.com/alecthomas/participle") || n == ql+".Prepare"
	}
	for _, name := range []string{"BindParams", "(*PreparedStatement).Bind", "(*Transformer).TransformBound", "resolveScalarParam", "resolveListParam", "resolveTimeParam", "resolveCountParam", "bindScalarValue", "bindTimeValue"} {
		f := r.fn(rule, ql, name)
		if f == nil {
			continue
		}
		path := r.reach(f, isParser, func(g *ssa.Function) bool {
			return g.Pkg != nil && strings.HasPrefix(g.Pkg.Pkg.Path(), strings.TrimSuffix(ssax.Module, "/"))
		})
		if path != nil {
			r.Violate(rule, ssax.FuncName(f)+" ⇏ parser", r.fpos(f), "a bound parameter can reach the query parser: "+strings.Join(path, " → "))
		} else {
			r.Hold(rule, ssax.FuncName(f)+" ⇏ parser", r.fpos(f), "no static path to ParseQuery / participle")
		}
	}
	r.Floor(rule, 8)

	// 2. placeholder positions
	rule = "c20.placeholder-coverage"
	pk := r.P.Pkg(ql)
	var tagged []string
	if pk != nil && pk.Types != nil {
		sc := pk.Types.Scope()
		for _, n := range sc.Names() {
			tn, ok := sc.Lookup(n).(*types.TypeName)
			if !ok {
				continue
			}
			st, ok := tn.Type().Underlying().(*types.Struct)
			if !ok {
				continue
			}
			for i := 0; i < st.NumFields(); i++ {
				if strings.Contains(reflect.StructTag(st.Tag(i)).Get("parser"), "@Param") {
					tagged = append(tagged, ql+"."+tn.Name()+"."+st.Field(i).Name())
				}
			}
		}
	}
	sort.Strings(tagged)
	if len(tagged) < 4 {
		r.Undecide(rule, "grammar fields tagged @Param", "", fmt.Sprintf("only %d tagged fields found", len(tagged)))
	}
	for _, tr := range []struct{ what, root string }{{"one-shot binder (binder.collect)", "(*binder).collect"}, {"prepared-statement walker (preparer.walkGrammar)", "(*preparer).walkGrammar"}} {
		f := r.fn(rule, ql, tr.root)
		if f == nil {
			continue
		}
		touched, nf := r.fieldsTouched(ql, f)
		r.Stat("traversal_functions", nf)
		for _, t := range tagged {
			r.Check(touched[t], rule, tr.what+" visits "+t, r.fpos(f), "a placeholder accepted by the grammar at this position must be visited by the traversal, otherwise it is silently left unbound or mis-numbered")
		}
	}
	r.Floor(rule, 10)

	// 3. count bounds agree per position (keyed by the struct type that carries the count)
	rule = "c20.count-bounds-agree"
	type bound struct{ max, pos string }
	collect := func(f *ssa.Function, callee string, maxArg int, key func(cl *ssa.Call) string) map[string]bound {
		out := map[string]bound{}
		if f == nil {
			return out
		}
		for _, in := range ssax.Find(f, ssax.CallTo(callee)) {
			cl := in.(*ssa.Call)
			k, ok := cl.Call.Args[maxArg].(*ssa.Const)
			if !ok || k.Value == nil {
				continue
			}
			if ky := key(cl); ky != "" {
				out[ky] = bound{k.Value.ExactString(), r.pos(in)}
			}
		}
		return out
	}
	structOf := func(v ssa.Value) string {
		// the struct type name of the field this value addresses / was loaded from
		for d := 0; d < 6 && v != nil; d++ {
			switch x := v.(type) {
			case *ssa.FieldAddr:
				q := ssax.FieldQName(x)
				return q[:strings.LastIndex(q, ".")]
			case *ssa.UnOp:
				v = x.X
				continue
			case *ssa.Convert:
				v = x.X
				continue
			}
			break
		}
		return ""
	}
	binderB := collect(r.fn(rule, ql, "(*binder).collect"), "(*"+ql+".binder).collectIntSlot", 3, func(cl *ssa.Call) string { return structOf(cl.Call.Args[2]) })
	validB := collect(r.fn(rule, ql, "validateGrammarCounts"), ql+".validateCountValue", 2, func(cl *ssa.Call) string { return structOf(cl.Call.Args[1]) })
	prepB := map[string]bound{}
	if f := r.fn(rule, ql, "(*preparer).walkGrammar"); f != nil {
		for _, in := range ssax.Find(f, ssax.CallTo("(*"+ql+".preparer).add")) {
			cl := in.(*ssa.Call)
			k, ok := cl.Call.Args[2].(*ssa.Const)
			if !ok || k.Value == nil {
				continue
			}
			// the result is stored into <struct>.ParamIndex / NParamIndex
			for _, ref := range *cl.Referrers() {
				if st, ok := ref.(*ssa.Store); ok {
					if s := structOf(st.Addr); s != "" {
						prepB[s] = bound{k.Value.ExactString(), r.pos(in)}
					}
				}
			}
		}
	}
	keys := map[string]bool{}
	for k := range binderB {
		keys[k] = true
	}
	for k := range prepB {
		keys[k] = true
	}
	for k := range validB {
		keys[k] = true
	}
	for _, k := range sortedKeys(keys) {
		b, p, v := binderB[k], prepB[k], validB[k]
		ok := b.max != "" && b.max == p.max && b.max == v.max
		r.Check(ok, rule, "count bound of "+k+": binder = preparer = literal validator", b.pos, fmt.Sprintf("binder %s, preparer %s, validator %s — a bound the prepared path accepts but the literal path rejects lets a parameter produce a request no literal statement can", b.max, p.max, v.max))
	}
	r.Floor(rule, 4)

	// 4. Bind: kinds exhaustive; reject before filling
	rule = "c20.bind-rejects"
	if f := r.fn(rule, ql, "(*PreparedStatement).Bind"); f != nil {
		r.sameSet(rule, "PreparedStatement.Bind kind switch = placeholderKind constants", r.fpos(f), "Bind", r.caseConsts(f, "placeholderKind", false).list(), "placeholderKind", r.enumValues(ql, "placeholderKind"), false)
		resolves := NM{"resolve*Param", func(in ssa.Instruction) bool {
			cl, ok := in.(*ssa.Call)
			return ok && strings.HasPrefix(ssax.CalleeName(cl.Common()), ql+".resolve")
		}}
		// length mismatch exits before any resolution
		lenCond := ""
		for _, cs := range ssax.Conds(f) {
			if strings.Contains(cs, "builtin:len(arg0)") && strings.Contains(cs, "!=") {
				lenCond = cs
			}
		}
		if lenCond == "" {
			r.Violate(rule, ssax.FuncName(f)+": parameter count checked first", r.fpos(f), "no len(params) != len(specs) test; conditions: "+strings.Join(ssax.Conds(f), "; "))
		} else if _, _, found := (ssax.Search{Target: resolves.M, Edge: ssax.PruneCond(lenCond, false)}).From(f, nil); found {
			r.Violate(rule, ssax.FuncName(f)+": parameter count checked first", r.fpos(f), "a parameter is resolved although the count does not match")
		} else {
			r.Hold(rule, ssax.FuncName(f)+": parameter count checked first", r.fpos(f), lenCond)
		}
	}
	if f := r.fn(rule, ql, "BindParams"); f != nil {
		setBound := NM{"paramsBound=true", ssax.StoreTo(ql+".Grammar.paramsBound", ssax.IsTrue)}
		// set only after expandLists, i.e. after every slot succeeded
		r.neverBefore(rule, f, call("(*"+ql+".binder).expandLists"), setBound, nil)
		r.mustSeq(rule, f, exitOK(f), nil, call("(*"+ql+".binder).collect"), setBound)
	}
	r.Floor(rule, 4)

	// 4b. the one-shot binder writes each accepted value into the grammar as it goes (its slots return only an
	// error). A rejection after some slot has run therefore leaves earlier values in the tree, and the remaining
	// placeholders would pass for the whole statement at the next bind: every such error exit must first mark the
	// grammar (a true stored into one of its own flags) so that it can never be bound or transformed again (F50).
	rule = "c20.failed-bind-unusable"
	if f := r.fn(rule, ql, "BindParams"); f != nil {
		errIface := func(t types.Type) bool { return t.String() == "error" }
		var slotCalls []ssa.Instruction
		for _, in := range ssax.Find(f, func(in ssa.Instruction) bool {
			cl, ok := in.(*ssa.Call)
			if !ok || cl.Call.IsInvoke() {
				return false
			}
			switch cl.Call.Value.(type) {
			case *ssa.Function, *ssa.Builtin, *ssa.MakeClosure:
				return false
			}
			return errIface(cl.Type())
		}) {
			slotCalls = append(slotCalls, in)
		}
		mark := func(in ssa.Instruction) bool {
			st, ok := in.(*ssa.Store)
			if !ok || !strings.Contains(ssax.FieldQName(st.Addr), ql+".Grammar.") {
				return false
			}
			k, isC := st.Val.(*ssa.Const)
			return isC && k.Value != nil && k.Value.ExactString() == "true"
		}
		okExit := ssax.SuccessExit(f)
		errExit := func(in ssa.Instruction) bool { return ssax.IsReturn(in) && !okExit(in) }
		if len(slotCalls) == 0 {
			r.Hold(rule, ssax.FuncName(f)+": no slot writes in place", r.fpos(f), "no closure call returning only an error: the binder does not write values while it validates")
		}
		for i, sc := range slotCalls {
			construct := fmt.Sprintf("%s: a rejection after slot call #%d marks the grammar", ssax.FuncName(f), i+1)
			sc := sc
			if _, _, reach := (ssax.Search{Target: func(in ssa.Instruction) bool { return in == sc }, Avoid: mark}).From(f, nil); !reach {
				r.Hold(rule, construct, r.pos(sc), "the grammar is marked before the slot runs")
				continue
			}
			if tgt, path, found := (ssax.Search{Target: errExit, Avoid: mark}).From(f, sc); found {
				r.Violate(rule, construct, r.pos(tgt), fmt.Sprintf("the error return at %s is reachable after the slot call at %s wrote a value into the grammar, with no flag set (%s): the half-bound grammar accepts a later bind with fewer parameters and produces a request mixing two parameter lists", r.pos(tgt), r.pos(sc), blocksStr(path)))
			} else {
				r.Hold(rule, construct, r.pos(sc), "")
			}
		}
	}
	r.Floor(rule, 1)

	// 5. the prepared template is immutable on the bound path
	rule = "c20.template-immutable"
	var roots []*ssa.Function
	for _, n := range []string{"(*PreparedStatement).Bind", "(*Transformer).TransformBound"} {
		if f := r.fn(rule, ql, n); f != nil {
			roots = append(roots, f)
		}
	}
	seen := map[*ssa.Function]bool{}
	nstores, nfun := 0, 0
	var visit func(f *ssa.Function)
	visit = func(f *ssa.Function) {
		if f == nil || seen[f] || len(f.Blocks) == 0 {
			return
		}
		seen[f] = true
		nfun++
		for _, b := range f.Blocks {
			for _, in := range b.Instrs {
				if st, ok := in.(*ssa.Store); ok {
					if fa, ok := st.Addr.(*ssa.FieldAddr); ok {
						q := ssax.FieldQName(fa)
						if strings.HasPrefix(q, ql+".Grammar") {
							// fresh node allocated in this function?
							fresh := false
							switch base := fa.X.(type) {
							case *ssa.Alloc:
								fresh = true
							case *ssa.Call:
								_ = base
							}
							if !fresh {
								nstores++
								r.Violate(rule, fmt.Sprintf("%s writes %s", ssax.FuncName(f), q), r.pos(in), "a grammar node that may belong to the cached prepared template is written on the bound path: concurrent requests sharing the template would see each other's parameters")
							}
						}
					}
				}
				// closures are followed only when called directly: the binder's slot closures are created by the
				// shared traversal but invoked only by the one-shot BindParams, never on the prepared path
				if cc := ssax.Common(in); cc != nil {
					if g := cc.StaticCallee(); g != nil && (g.Pkg != nil && ssax.Short(g.Pkg.Pkg.Path()) == ql || g.Parent() != nil) {
						visit(g)
					}
				}
			}
		}
	}
	for _, f := range roots {
		visit(f)
	}
	r.Stat("bound_path_functions", nfun)
	if nstores == 0 && len(roots) == 2 {
		r.Hold(rule, "Bind/TransformBound never write Grammar* nodes", "", fmt.Sprintf("%d functions reachable through static calls inside %s", nfun, ql))
	}
	// overlay: on the bound path the NULL-ness of a value node is read from the resolved node
	rule = "c20.overlay-resolved"
	nNull := 0
	var ordered []*ssa.Function
	for f := range seen {
		ordered = append(ordered, f)
	}
	sort.Slice(ordered, func(i, j int) bool { return ordered[i].Pos() < ordered[j].Pos() })
	for _, f := range ordered {
		if f.Signature.Recv() == nil || !strings.Contains(f.Signature.Recv().Type().String(), "transformRun") {
			continue
		}
		for _, b := range f.Blocks {
			for _, in := range b.Instrs {
				fa, ok := in.(*ssa.FieldAddr)
				if !ok || ssax.FieldQName(fa) != ql+".GrammarValue.Null" {
					continue
				}
				nNull++
				okr := flowsFromCallSuffix(fa.X, ").resolveValue", 0) || flowsFromCallSuffix(fa.X, ").resolveValues", 0) || flowsFromAnyParamOnly(fa.X)
				r.Check(okr, rule, fmt.Sprintf("%s: GrammarValue.Null read #%d goes through the overlay", ssax.FuncName(f), nNull), r.pos(in), "value nodes of a prepared template are placeholders; their bound value (including NULL) lives in the overlay and must be obtained with resolveValue(s)")
			}
		}
	}
	r.Floor(rule, 1)

	// 6. cache keyed by the exact text
	rule = "c20.cache-key"
	const lg = "banyand/liaison/grpc"
	if f := r.fn(rule, lg, "(*preparedCache).getOrPrepare"); f != nil {
		n := 0
		for _, b := range f.Blocks {
			for _, in := range b.Instrs {
				cl, ok := in.(*ssa.Call)
				if !ok {
					continue
				}
				cn := ssax.CalleeName(cl.Common())
				var keyArg ssa.Value
				switch {
				case strings.Contains(cn, "golang-lru") && (strings.HasSuffix(cn, ").Get") || strings.HasSuffix(cn, ").ContainsOrAdd") || strings.HasSuffix(cn, ").Add") || strings.HasSuffix(cn, ").Peek")):
					keyArg = cl.Call.Args[1]
				case cn == "(*"+lg+".preparedCache).store", cn == "(*"+lg+".preparedCache).wasEvicted", cn == ql+".Prepare":
					keyArg = cl.Call.Args[len(cl.Call.Args)-1]
					if cn != ql+".Prepare" {
						keyArg = cl.Call.Args[1]
					}
				}
				if keyArg == nil {
					continue
				}
				n++
				v := keyArg
				if mi, ok := v.(*ssa.MakeInterface); ok {
					v = mi.X
				}
				p, isParam := v.(*ssa.Parameter)
				r.Check(isParam && ssax.ParamName(p) == "arg0", rule, fmt.Sprintf("%s: key/text argument #%d of %s is the query parameter itself", ssax.FuncName(f), n, cn[strings.LastIndex(cn, ".")+1:]), r.pos(in), "two statements that differ in any byte (e.g. whitespace inside a quoted literal) are different templates")
			}
		}
		if n < 3 {
			r.Undecide(rule, ssax.FuncName(f), r.fpos(f), fmt.Sprintf("only %d cache-key uses found", n))
		}
	}

	// a bound timestamp is spliced with full precision: the layout it is formatted with keeps the sub-second part
	// (a quoted literal keeps it, so a bound parameter must too)
	if f := r.fn("c20.time-param-precision", "pkg/bydbql", "resolveTimeParam"); f != nil {
		rule := "c20.time-param-precision"
		n := 0
		for _, in := range ssax.Find(f, ssax.CallTo("(time.Time).Format")) {
			n++
			construct := fmt.Sprintf("%s: Format#%d keeps nanoseconds", ssax.FuncName(f), n)
			k, ok := in.(*ssa.Call).Call.Args[1].(*ssa.Const)
			if !ok || k.Value == nil {
				r.Undecide(rule, construct, r.pos(in), "layout is not a constant")
				continue
			}
			lay := constant.StringVal(k.Value)
			r.Check(strings.Contains(lay, "999999999") || strings.Contains(lay, "000000000"), rule, construct, r.pos(in),
				fmt.Sprintf("layout %q has no nanosecond field: TIME BETWEEN ? AND ? bound to 10:00:00.250 / .750 becomes [10:00:00, 10:00:00] while the same statement with quoted literals keeps the fractions — the bound statement is not the statement the literals denote", lay))
		}
		r.Floor(rule, 1)
	}

	// a parameter the resolver rejects makes the whole bind fail: on both binding paths the error of every
	// resolve*Param call reaches the caller (it is not shadowed, dropped, or followed by a success return)
	{
		rule := "c20.resolve-error-propagates"
		n := 0
		for _, f := range r.P.ModuleFuncs("pkg/bydbql") {
			for _, in := range ssax.Find(f, func(in ssa.Instruction) bool {
				c, ok := in.(*ssa.Call)
				if !ok {
					return false
				}
				nm := ssax.CalleeName(c.Common())
				return strings.HasPrefix(nm, "pkg/bydbql.resolve") && (strings.HasSuffix(nm, "Param") || strings.HasSuffix(nm, "Elements"))
			}) {
				n++
				r.errorNeverSwallowed(rule, f, in.(*ssa.Call), "a parameter of a type or shape the position does not accept (binary data in a list, an empty array, a timestamp where an id is expected) is spliced as a zero value instead of rejecting the statement: the bound statement differs in shape from what the template says")
			}
		}
		r.Floor(rule, 8)
	}
}

// flowsFromAnyParamOnly: v is a parameter (possibly loaded through a spill cell) — the callee received an
// already-resolved node.
func flowsFromAnyParamOnly(v ssa.Value) bool {
	for d := 0; d < 4 && v != nil; d++ {
		switch x := v.(type) {
		case *ssa.Parameter:
			return true
		case *ssa.UnOp:
			v = x.X
			continue
		}
		break
	}
	return false
}
