package rules

import (
	"fmt"
	"go/types"
	"strings"

	"golang.org/x/tools/go/ssa"

	"bvcheck/internal/core"
	"bvcheck/internal/ssax"
)

func init() {
	register(&core.Property{
		ID:    "C18",
		Title: "Properties are last-writer-wins and replicas converge",
		Decides: "repair never overwrites newer state: in shard.repair the document update is unreachable when the newest local revision is greater than the incoming one, or equal with the same delete time, and reachable when it is older (or equal with a different tombstone state); the local documents are sorted by revision before the newest is read; " +
			"the query-side de-duplication (sorted and unsorted) replaces an entry only by a strictly higher revision; the newest previous revision is chosen over all documents, tombstones included; the Apply strategies are exactly those of the proto enum.; Query writes a tag projection only into a property object it allocated itself (never into the object queued for read-repair)",
		NotDecided: "map equivalence over histories, convergence under gossip orders, Merkle-tree logic, tag merge contents.",
		Technique:  "SSA path search under hypothetical orderings of two revisions (relational world pruning); comparator truth table; CFG dominance; enum agreement; SSA def-use of the entry removed from the ordered buffer",
		Run:        runC18,
	})
}

func pathHas(subs ...string) func(ssa.Value) bool {
	return func(v ssa.Value) bool {
		p := ssax.Path(v)
		for _, s := range subs {
			if !strings.Contains(p, s) {
				return false
			}
		}
		return true
	}
}

func runC18(c *core.Ctx) {
	r := newR(c)
	const db = "banyand/property/db"
	r.cmpLex("c18.revision-order", db, "queryPropertySlice.Less", ij, "revision (timestamp) ascending", kspec{Match: "timestamp"})
	if f := r.fn("c18.repair-guard", db, "(*shard).repair"); f != nil {
		rule := "c18.repair-guard"
		upd := ssax.CallTo("(*" + db + ".shard).updateDocuments")
		srt := ssax.Find(f, ssax.CallTo("sort.Sort"))
		if len(srt) != 1 {
			r.Violate(rule, ssax.FuncName(f)+": local documents sorted before the newest is read", r.fpos(f), "expected one sort.Sort call")
		} else {
			localTS := pathHas(".timestamp")
			inTS := pathHas("ModRevision")
			localDel := func(v ssa.Value) bool { return strings.HasSuffix(ssax.Path(v), "[].deleteTime") }
			inDel := func(v ssa.Value) bool {
				_, ok := v.(*ssa.Parameter)
				return ok && strings.Contains(v.Name(), "deleteTime")
			}
			nonEmpty := func(from *ssa.BasicBlock, succ int) bool { // local documents exist
				iff, ok := from.Instrs[len(from.Instrs)-1].(*ssa.If)
				if !ok {
					return true
				}
				if cs := ssax.Cond(iff.Cond); strings.HasPrefix(cs, "builtin:len(") && strings.HasSuffix(cs, "== 0") {
					return succ == 1
				}
				return true
			}
			type world struct {
				name  string
				edge  ssax.EdgeFilter
				reach bool
			}
			worlds := []world{
				{"local revision > incoming", ssax.AndEdges(nonEmpty, ssax.RelEdge(localTS, inTS, +1)), false},
				{"local revision = incoming, same delete time", ssax.AndEdges(nonEmpty, ssax.RelEdge(localTS, inTS, 0), ssax.RelEdge(localDel, inDel, 0)), false},
				{"local revision < incoming", ssax.AndEdges(nonEmpty, ssax.RelEdge(localTS, inTS, -1)), true},
				// a delete keeps the revision and only sets a delete time: at equal revisions the LATER delete time wins
				// (a live copy counts as 0), so a stale live copy never undoes a delete
				{"local revision = incoming, local delete time later", ssax.AndEdges(nonEmpty, ssax.RelEdge(localTS, inTS, 0), ssax.RelEdge(localDel, inDel, +1)), false},
				{"local revision = incoming, incoming delete time later", ssax.AndEdges(nonEmpty, ssax.RelEdge(localTS, inTS, 0), ssax.RelEdge(localDel, inDel, -1)), true},
				{"local revision < incoming, different delete time", ssax.AndEdges(nonEmpty, ssax.RelEdge(localTS, inTS, -1), ssax.RelEdge(localDel, inDel, +1)), true},
				{"local revision > incoming, different delete time", ssax.AndEdges(nonEmpty, ssax.RelEdge(localTS, inTS, +1), ssax.RelEdge(localDel, inDel, +1)), false},
			}
			for _, w := range worlds {
				tgt, _, found := (ssax.Search{Target: upd, Edge: w.edge}).From(f, srt[0])
				construct := fmt.Sprintf("%s: [%s] ⇒ update %s", ssax.FuncName(f), w.name, map[bool]string{true: "performed", false: "refused"}[w.reach])
				switch {
				case found && !w.reach:
					r.Violate(rule, construct, r.pos(tgt), "repair can overwrite local state that is not older than the incoming property: replicas would not converge to the highest revision")
				case !found && w.reach:
					r.Violate(rule, construct, r.fpos(f), "repair refuses an incoming property that is newer (or differs in tombstone state at the same revision)")
				default:
					r.Hold(rule, construct, r.fpos(f), "")
				}
			}
			// the newest-local read (index len-1) happens after the sort
			r.neverBefore(rule, f, call("sort.Sort"), NM{"revision comparison", func(in ssa.Instruction) bool {
				bo, ok := in.(*ssa.BinOp)
				return ok && (localTS(bo.X) && inTS(bo.Y) || localTS(bo.Y) && inTS(bo.X))
			}}, nil)
		}
		r.Floor(rule, 7)
	}
	// query-side de-duplication
	const lg = "banyand/liaison/grpc"
	for _, name := range []string{"(*propertyServer).sortedQueryWithDedup", "(*propertyServer).simpleDedupWithoutSort"} {
		rule := "c18.dedup-keeps-newest"
		f := r.fn(rule, lg, name)
		if f == nil {
			continue
		}
		isRev := func(v ssa.Value) bool { return strings.HasSuffix(ssax.Path(v), ".ModRevision") }
		// the first revision comparison: X = existing (from the seen map), Y = incoming
		var cmpBlock *ssa.BasicBlock
		var exist, incoming ssa.Value
		for _, b := range f.Blocks {
			for _, in := range b.Instrs {
				if bo, ok := in.(*ssa.BinOp); ok && isRev(bo.X) && isRev(bo.Y) && cmpBlock == nil {
					cmpBlock = b
					exist, incoming = bo.X, bo.Y
					if !strings.Contains(ssax.Path(exist), "[]") && strings.Contains(ssax.Path(incoming), "[]") {
						exist, incoming = incoming, exist
					}
				}
			}
		}
		construct := ssax.FuncName(f) + ": an entry is replaced only by a strictly higher revision"
		if cmpBlock == nil {
			r.Violate(rule, construct, r.fpos(f), "no revision comparison found")
			continue
		}
		pe, pi := ssax.Path(exist), ssax.Path(incoming)
		isE := func(v ssa.Value) bool { return ssax.Path(v) == pe }
		isI := func(v ssa.Value) bool { return ssax.Path(v) == pi }
		replace := func(in ssa.Instruction) bool { _, ok := in.(*ssa.MapUpdate); return ok }
		bad := ""
		// one iteration only: stop when control comes back to the "seen?" test that dominates the comparison
		nextIter := func(in ssa.Instruction) bool {
			if id := cmpBlock.Idom(); id != nil && in == id.Instrs[0] {
				return true
			}
			return in == cmpBlock.Instrs[0]
		}
		for _, rel := range []int{+1, 0} {
			if tgt, _, found := (ssax.Search{Target: replace, Edge: ssax.RelEdge(isE, isI, rel), Avoid: nextIter}).From(f, cmpBlock.Instrs[0]); found {
				bad = fmt.Sprintf("the seen-map entry is overwritten at %s although the existing revision is %s the incoming one", r.pos(tgt), map[int]string{1: "greater than", 0: "equal to"}[rel])
			}
		}
		if _, _, found := (ssax.Search{Target: replace, Edge: ssax.RelEdge(isE, isI, -1), Avoid: nextIter}).From(f, cmpBlock.Instrs[0]); !found && bad == "" {
			bad = "a higher incoming revision never replaces the existing entry"
		}
		if bad != "" {
			r.Violate(rule, construct, r.pos(cmpBlock.Instrs[0]), bad)
		} else {
			r.Hold(rule, construct, r.pos(cmpBlock.Instrs[0]), "existing="+pe+" incoming="+pi)
		}
	}
	r.Floor("c18.dedup-keeps-newest", 2)
	// Query hands the properties it found to read-repair; it must not edit them afterwards: a tag projection is
	// applied to a fresh copy, never written into a property object the function did not allocate itself
	if f := r.fn("c18.query-does-not-edit-found-properties", lg, "(*propertyServer).Query"); f != nil {
		rule := "c18.query-does-not-edit-found-properties"
		n := 0
		for _, g := range append([]*ssa.Function{f}, f.AnonFuncs...) {
			for _, b := range g.Blocks {
				for _, in := range b.Instrs {
					st, ok := in.(*ssa.Store)
					if !ok {
						continue
					}
					fa, ok := st.Addr.(*ssa.FieldAddr)
					if !ok || !strings.HasSuffix(ssax.FieldQName(fa), "property/v1.Property.Tags") {
						continue
					}
					n++
					_, fresh := fa.X.(*ssa.Alloc)
					r.Check(fresh, rule, fmt.Sprintf("%s: Tags store #%d writes into a property allocated here", ssax.FuncName(f), n), r.pos(in),
						"the tag projection is written into a property object that came out of the search / dedup step — the same object that was queued for read-repair — so the repair later ships only the projected tags under the current revision and the lagging replica keeps a truncated value")
				}
			}
		}
		r.Floor(rule, 1)
	}

	// the entry taken out of the ordered buffer when a newer revision arrives is the one found in the seen map
	if f := r.fn("c18.dedup-removes-superseded", lg, "(*propertyServer).sortedQueryWithDedup"); f != nil {
		rule := "c18.dedup-removes-superseded"
		n := 0
		for _, in := range ssax.Find(f, ssax.CallTo("(*"+lg+".propertyServer).findPropertyInBuffer")) {
			n++
			args := in.(*ssa.Call).Call.Args
			var fromMap, fresh bool
			seen := map[ssa.Value]bool{}
			var walk func(v ssa.Value)
			walk = func(v ssa.Value) {
				if v == nil || seen[v] {
					return
				}
				seen[v] = true
				switch x := v.(type) {
				case *ssa.Lookup:
					fromMap = true
				case *ssa.Extract:
					walk(x.Tuple)
				case *ssa.Phi:
					for _, e := range x.Edges {
						walk(e)
					}
				case *ssa.Call:
					if strings.HasSuffix(ssax.CalleeName(x.Common()), ".newPropertyWithCounts") {
						fresh = true
					}
				}
			}
			for _, a := range args[1:] {
				if _, ok := a.Type().Underlying().(*types.Pointer); ok {
					walk(a)
				}
			}
			r.Check(fromMap && !fresh, rule, fmt.Sprintf("%s: findPropertyInBuffer#%d looks up the superseded entry", ssax.FuncName(f), n), r.pos(in),
				"the entry searched for (and removed) in the ordered result buffer must be the existing one from the seen map; searching for the new revision's entry finds nothing, the superseded revision stays in the buffer and the query returns two values for one key")
		}
		r.Floor(rule, 1)
	}
	if f := r.fn("c18.prev-is-newest", lg, "(*propertyServer).findPrevAndOlderProperties"); f != nil {
		rule := "c18.prev-is-newest"
		isRev := func(v ssa.Value) bool { return strings.HasSuffix(ssax.Path(v), ".ModRevision") }
		var cmp *ssa.BinOp
		for _, b := range f.Blocks {
			for _, in := range b.Instrs {
				if bo, ok := in.(*ssa.BinOp); ok && isRev(bo.X) && isRev(bo.Y) {
					cmp = bo
				}
			}
		}
		construct := ssax.FuncName(f) + ": the newest revision is chosen over all documents, tombstones included"
		if cmp == nil {
			r.Violate(rule, construct, r.fpos(f), "no revision comparison found")
		} else {
			// the comparison must be reachable from the loop body entry when the document is a tombstone (deletedTime > 0)
			del := func(v ssa.Value) bool { return strings.HasSuffix(ssax.Path(v), ".deletedTime") }
			var loopBodyFirst ssa.Instruction
			for _, b := range f.Blocks {
				for _, in := range b.Instrs {
					if bo, ok := in.(*ssa.BinOp); ok && del(bo.X) && loopBodyFirst == nil {
						loopBodyFirst = b.Instrs[0]
					}
				}
			}
			okReach := true
			if loopBodyFirst != nil {
				isConst := func(v ssa.Value) bool { _, ok := v.(*ssa.Const); return ok }
				_, _, okReach = (ssax.Search{Target: func(in ssa.Instruction) bool { return in == ssa.Instruction(cmp) }, Edge: ssax.RelEdge(del, isConst, +1),
					Avoid: func(in ssa.Instruction) bool { _, isNext := in.(*ssa.Next); return isNext }}).From(f, loopBodyFirst)
				if loopBodyFirst == ssa.Instruction(cmp) {
					okReach = true
				}
			}
			r.Check(okReach, rule, construct, r.pos(cmp), "a tombstone with a higher revision must still become the merge base: otherwise a merge after a delete resurrects tags of the deleted value")
		}
	}
	// strategies
	{
		rule := "c18.strategies"
		enum := r.enumValues("api/proto/banyandb/property/v1", "ApplyRequest_Strategy")
		want := []string{"ApplyRequest_STRATEGY_MERGE", "ApplyRequest_STRATEGY_REPLACE", "ApplyRequest_STRATEGY_UNSPECIFIED"}
		r.sameSet(rule, "proto ApplyRequest.Strategy = {UNSPECIFIED, MERGE, REPLACE} (Apply treats everything but REPLACE as MERGE)", "", "proto enum", enum, "handled", want, false)
		if f := r.fn(rule, lg, "(*propertyServer).Apply"); f != nil {
			cs := r.caseConsts(f, "ApplyRequest_Strategy", false).list()
			r.Check(len(cs) == 1 && cs[0] == "ApplyRequest_STRATEGY_REPLACE", rule, ssax.FuncName(f)+": REPLACE is the one strategy distinguished", r.fpos(f), strings.Join(cs, ","))
		}
	}
}
