package rules

import (
	"fmt"
	"go/token"
	"go/types"
	"strings"

	"golang.org/x/tools/go/ssa"

	"bvcheck/internal/core"
	"bvcheck/internal/ssax"
)

func init() {
	register(&core.Property{
		ID:    "C17",
		Title: "A cluster answers like a standalone node; part transfer is exact",
		Decides: "(transfer half only) on the receiver every hand-over of chunk bytes to a part handler, and every advance of an expected-chunk counter, happens only on the checksum-match outcome — a chunk answered with a rejection status must not count as progress; sender and receiver compute the checksum the same way; only processExpectedChunk drives the handlers and it is entered only for the expected index; " +
			"a received part is introduced only by FinishSync, after its metadata is written, and an abnormal end of the stream (deferred cleanup) can close but never finalize a part; Close of an unfinished context removes the partial directory and releases the segment; the sender reports failed parts with the same id format on the initial and the retry path and sends the sync introduction only after the transfer succeeded; the liaison's mem-part merge empties its group accumulator whenever the segment id changes (parts of two time segments are never merged into one shipped part).; the trace syncer sorts the streaming parts after the last append and before every hand-over to a node (parts of one id adjacent); a completion message reaches FinishSync only through a check that reads the sender's chunk / byte totals, and never when that check failed",
		NotDecided: "cluster/standalone query equivalence, shard/segment attribution of rows end to end, receiver restarts, idempotence of re-processing after SERVER_BUSY.",
		Technique:  "guarded-call / world pruning on the checksum comparison, interprocedural acceptance summary over status constants, who-may-call, static reachability from deferred cleanup, sibling agreement of formatting callees; must-reset between a group-change test and the next append",
		Run:        runC17,
	})
}

func runC17(c *core.Ctx) {
	r := newR(c)
	const sub = "banyand/queue/sub"
	srv := "(*" + sub + ".server)"
	pec := r.fn("c17.crc-gate", sub, "(*server).processExpectedChunk")
	if pec != nil {
		rule := "c17.crc-gate"
		// the checksum comparison
		cond := ""
		for _, cs := range ssax.Conds(pec) {
			if strings.Contains(cs, "ChunkChecksum") {
				cond = cs
			}
		}
		effects := NM{"handler call / progress", func(in ssa.Instruction) bool {
			if st, ok := in.(*ssa.Store); ok && strings.HasSuffix(ssax.FieldQName(st.Addr), "syncSession.chunksReceived") {
				return true
			}
			cl, ok := in.(*ssa.Call)
			if !ok {
				return false
			}
			n := ssax.CalleeName(cl.Common())
			return n == srv+".processPart" || strings.HasPrefix(n, "iface:(banyand/queue.ChunkedSyncHandler).") || strings.HasPrefix(n, "iface:(banyand/queue.PartHandler).")
		}}
		construct := ssax.FuncName(pec) + ": handlers and progress only after a checksum match"
		if cond == "" {
			r.Violate(rule, construct, r.fpos(pec), "no comparison with req.ChunkChecksum found; conditions: "+strings.Join(ssax.Conds(pec), "; "))
		} else {
			mismatchOnly := ssax.PruneCond(cond, !strings.Contains(cond, "!=")) // follow only the mismatch outcome
			if tgt, _, found := (ssax.Search{Target: effects.M, Edge: mismatchOnly}).From(pec, nil); found {
				r.Violate(rule, construct, r.pos(tgt), "a handler call or the chunk counter is reachable on the checksum-mismatch outcome: corrupted bytes would be written into the part")
			} else {
				r.Hold(rule, construct, r.fpos(pec), "guard: "+cond)
			}
			// the compared value is crc32.ChecksumIEEE of the chunk data rendered with %x
			okc := false
			for _, in := range ssax.Find(pec, ssax.CallTo("hash/crc32.ChecksumIEEE")) {
				if strings.HasSuffix(ssax.Path(in.(*ssa.Call).Call.Args[0]), ".ChunkData") {
					okc = true
				}
			}
			r.Check(okc, rule, ssax.FuncName(pec)+": checksum is crc32.ChecksumIEEE(req.ChunkData)", r.fpos(pec), "")
		}
		r.whoMayCall("c17.who-drives-handlers", r.P.Func(sub, "(*server).processPart"), []string{srv + ".processExpectedChunk"})
		r.whoMayCall("c17.who-drives-handlers", pec, []string{srv + ".processChunkSequential", srv + ".processChunkWithReordering", srv + ".processBufferedChunks"})
	}
	// sender/receiver checksum agreement
	{
		rule := "c17.checksum-agreement"
		format := func(pkg string) (string, int) {
			n := 0
			fmts := map[string]bool{}
			for _, f := range r.P.ModuleFuncs(pkg) {
				for _, in := range ssax.Find(f, ssax.CallTo("hash/crc32.ChecksumIEEE")) {
					n++
					// the Sprintf that consumes it
					for _, ref := range *in.(*ssa.Call).Referrers() {
						_ = ref
					}
					for _, sp := range ssax.Find(f, ssax.CallTo("fmt.Sprintf")) {
						k, ok := sp.(*ssa.Call).Call.Args[0].(*ssa.Const)
						if !ok {
							continue
						}
						// the checksum itself (not a string derived from it) is an argument of this Sprintf
						direct := false
						for _, ref := range *in.(*ssa.Call).Referrers() {
							mi, isMI := ref.(*ssa.MakeInterface)
							if !isMI {
								continue
							}
							if sl, isSl := sp.(*ssa.Call).Call.Args[1].(*ssa.Slice); isSl {
								if al, isAl := sl.X.(*ssa.Alloc); isAl {
									for _, ar := range *al.Referrers() {
										if ia, isIA := ar.(*ssa.IndexAddr); isIA {
											for _, r2 := range *ia.Referrers() {
												if st, isSt := r2.(*ssa.Store); isSt && st.Val == ssa.Value(mi) {
													direct = true
												}
											}
										}
									}
								}
							}
						}
						if direct {
							fmts[k.Value.ExactString()] = true
						}
					}
				}
			}
			return strings.Join(sortedKeys(fmts), ","), n
		}
		fs, ns := format("banyand/queue/pub")
		fr, nr := format(sub)
		r.Check(ns > 0 && nr > 0 && fs == fr && fs != "", rule, "pub and sub render crc32.ChecksumIEEE with the same format", "", fmt.Sprintf("sender format %s (%d sites), receiver format %s (%d sites)", fs, ns, fr, nr))
	}

	// progress only on acceptance
	if pec != nil {
		rule := "c17.progress-on-acceptance"
		// rejection returns of processExpectedChunk: a nil-able error produced by sendResponse with a status other than CHUNK_RECEIVED
		statusOf := func(v ssa.Value) string {
			cl, ok := v.(*ssa.Call)
			if !ok || ssax.CalleeName(cl.Common()) != srv+".sendResponse" {
				return ""
			}
			if k, ok := cl.Call.Args[3].(*ssa.Const); ok && k.Value != nil {
				for name, val := range r.constsByValueRev("api/proto/banyandb/cluster/v1", "SyncStatus") {
					if val == k.Value.ExactString() {
						return name
					}
				}
			}
			return "?"
		}
		errIdx := ssax.ErrResultIndex(pec)
		hasFlag := pec.Signature.Results().Len() == 2
		nrej := 0
		for _, ret := range ssax.Find(pec, ssax.IsReturn) {
			rv := ret.(*ssa.Return)
			st := statusOf(ssax.Unspill(rv.Results[errIdx], rv))
			if st == "" || st == "SyncStatus_SYNC_STATUS_CHUNK_RECEIVED" {
				continue
			}
			nrej++
			construct := fmt.Sprintf("%s: rejection %s is visible to the caller as 'not accepted'", ssax.FuncName(pec), strings.TrimPrefix(st, "SyncStatus_SYNC_STATUS_"))
			if !hasFlag {
				r.Violate(rule, construct, r.pos(rv), "the function answers the sender with a rejection status and returns the (nil) send error: callers cannot tell this from acceptance and advance their expected-chunk index; the sender's retry of the same index is then ignored as a duplicate and the part is installed with a hole")
				continue
			}
			r.Check(ssax.IsFalse(ssax.Unspill(rv.Results[0], rv)), rule, construct, r.pos(rv), "accepted=false is returned together with the rejection response")
		}
		if nrej == 0 {
			r.Violate(rule, ssax.FuncName(pec)+": rejection returns", r.fpos(pec), "no rejection (checksum mismatch) response found")
		}
		// callers: every increment of expectedIndex is control-dependent on acceptance
		for _, name := range []string{"(*server).processChunkWithReordering", "(*server).processBufferedChunks"} {
			f := r.fn(rule, sub, name)
			if f == nil {
				continue
			}
			incs := ssax.Find(f, ssax.StoreTo(sub+".chunkBuffer.expectedIndex", nil))
			construct := ssax.FuncName(f) + ": expectedIndex advances only for an accepted chunk"
			if len(incs) == 0 {
				r.Violate(rule, construct, r.fpos(f), "no expectedIndex update found")
				continue
			}
			if !hasFlag {
				r.Violate(rule, construct, r.pos(incs[0]), "expectedIndex++ follows processExpectedChunk(...) == nil, which also holds after a checksum-mismatch response")
				continue
			}
			// with the flag: increments unreachable on the accepted==false outcome
			bad := false
			for _, cl := range ssax.Find(f, ssax.CallTo(srv+".processExpectedChunk")) {
				var flag ssa.Value
				for _, ref := range *cl.(*ssa.Call).Referrers() {
					if ex, ok := ref.(*ssa.Extract); ok && ex.Index == 0 {
						flag = ex
					}
				}
				if flag == nil {
					bad = true
					continue
				}
				notAccepted := func(from *ssa.BasicBlock, succ int) bool {
					iff, ok := from.Instrs[len(from.Instrs)-1].(*ssa.If)
					if !ok {
						return true
					}
					v, neg := iff.Cond, false
					for {
						if u, ok := v.(*ssa.UnOp); ok && u.Op.String() == "!" {
							v, neg = u.X, !neg
							continue
						}
						break
					}
					if v != flag {
						return true
					}
					if neg {
						return succ == 0
					}
					return succ == 1
				}
				if _, _, found := (ssax.Search{Target: func(in ssa.Instruction) bool {
					for _, i := range incs {
						if i == in {
							return true
						}
					}
					return false
				}, Edge: notAccepted, Avoid: func(in ssa.Instruction) bool { return in == cl }}).From(f, cl); found {
					bad = true
				}
			}
			r.Check(!bad, rule, construct, r.pos(incs[0]), "the index update is unreachable when processExpectedChunk reports accepted=false")
		}
		r.Floor(rule, 3)
	}

	// 2. install only at FinishSync; abnormal end never finalizes
	for _, s := range sibsMST {
		rule := "c17.install-only-at-finish"
		if f := r.fn(rule, s.pkg, "(*tsTable).mustAddFilePart"); f != nil {
			allow := []string{"(*" + s.pkg + ".syncPartContext).FinishSync"}
			for _, site := range r.callersOf(f) { // benchmark harness receivers (files benchmark_*) are outside the serving path
				if strings.Contains(r.pos(site), "/benchmark_") {
					outer := site.Parent()
					for outer.Parent() != nil {
						outer = outer.Parent()
					}
					allow = append(allow, ssax.FuncName(outer))
				}
			}
			r.whoMayCall(rule, f, allow)
		}
		if f := r.fn(rule, s.pkg, "(*syncPartContext).Close"); f != nil {
			// an unfinished context (partPath still set) removes the partial directory; the segment is released
			cond := `recv.partPath != ""`
			if !ssax.HasCond(f, cond) {
				r.Violate(rule, ssax.FuncName(f)+": unfinished part removed", r.fpos(f), "no partPath test; conditions: "+strings.Join(ssax.Conds(f), "; "))
			} else {
				edge := ssax.AndEdges(ssax.PruneCond(cond, false), ssax.PruneCond("recv.fileSystem != nil", false))
				r.mustSeq(rule, f, exitAny, edge, call(fsMustRMAll))
			}
			r.mustSeq(rule, f, exitAny, ssax.PruneCond("recv.segment != nil", false), NM{"segment.DecRef", func(in ssa.Instruction) bool {
				cl, ok := in.(*ssa.Call)
				return ok && strings.HasSuffix(ssax.CalleeName(cl.Common()), ").DecRef")
			}})
		}
	}
	if f := r.fn("c17.abnormal-end-discards", sub, "(*server).SyncPart"); f != nil {
		rule := "c17.abnormal-end-discards"
		n := 0
		for _, in := range ssax.Find(f, func(in ssa.Instruction) bool { return isDefer(in) }) {
			d := in.(*ssa.Defer)
			var root *ssa.Function
			if mc, ok := d.Call.Value.(*ssa.MakeClosure); ok {
				root = mc.Fn.(*ssa.Function)
			} else {
				root = d.Call.StaticCallee()
			}
			if root == nil {
				continue
			}
			n++
			finish := func(g *ssa.Function) bool {
				for _, b := range g.Blocks {
					for _, x := range b.Instrs {
						if cc := ssax.Common(x); cc != nil && strings.HasSuffix(ssax.CalleeName(cc), ".FinishSync") {
							return true
						}
					}
				}
				return false
			}
			path := []string{ssax.FuncName(root)}
			bad := finish(root)
			if !bad {
				if p := r.reach(root, finish, func(g *ssa.Function) bool { return g.Pkg != nil && ssax.Short(g.Pkg.Pkg.Path()) == sub }); p != nil {
					bad, path = true, p
				}
			}
			if bad {
				r.Violate(rule, fmt.Sprintf("%s: deferred cleanup #%d never finalizes a part", ssax.FuncName(f), n), r.pos(in), "the cleanup that runs on every end of the RPC (EOF, receive error, cancellation) can reach FinishSync: a half-received part would be introduced: "+strings.Join(path, " → "))
			} else {
				r.Hold(rule, fmt.Sprintf("%s: deferred cleanup #%d never finalizes a part", ssax.FuncName(f), n), r.pos(in), "reaches Close only")
			}
		}
		if n == 0 {
			r.Violate(rule, ssax.FuncName(f)+": deferred cleanup", r.fpos(f), "no deferred cleanup: an aborted transfer would leave its part context open")
		}
	}

	// 3. sender
	for _, s := range sibsMST {
		rule := "c17.failed-part-id-format"
		// every FailedPart.PartID string is produced by the same formatter
		callees := map[string]int{}
		for _, f := range r.P.ModuleFuncs(s.pkg) {
			for _, in := range ssax.Find(f, ssax.StoreTo("banyand/queue.FailedPart.PartID", nil)) {
				v := in.(*ssa.Store).Val
				if cl, ok := v.(*ssa.Call); ok {
					callees[ssax.CalleeName(cl.Common())]++
				} else {
					callees["<"+fmt.Sprintf("%T", v)+">"]++
				}
			}
		}
		if len(callees) == 0 {
			continue
		}
		ok := len(callees) == 1 && callees["strconv.FormatUint"] > 0
		r.Check(ok, rule, s.pkg+": FailedPart.PartID is always strconv.FormatUint(id, 10)", "", fmt.Sprintf("formatters used: %v (the failed-parts handler parses these ids in base 10; a different rendering makes a failed part look delivered)", callees))
	}
	for _, s := range sibsMST {
		rule := "c17.intro-after-success"
		name := "(*tsTable).syncSnapshot"
		if s.tag == "T" {
			name = "(*tsTable).syncSnapshot"
		}
		f := r.fn(rule, s.pkg, name)
		if f == nil {
			continue
		}
		// the pair lives in syncSnapshot (measure, stream) or in a helper it calls (trace)
		hasPair := func(g *ssa.Function) bool {
			a, b := false, false
			for _, blk := range g.Blocks {
				for _, in := range blk.Instrs {
					if cc := ssax.Common(in); cc != nil {
						a = a || strings.HasSuffix(ssax.CalleeName(cc), ".executeSyncWithRetry") || strings.HasSuffix(ssax.CalleeName(cc), ".executeSyncOperation")
						b = b || strings.HasSuffix(ssax.CalleeName(cc), ".sendSyncIntroduction") || strings.HasSuffix(ssax.CalleeName(cc), ".handleSyncIntroductions")
					}
				}
			}
			return a && b
		}
		if !hasPair(f) {
			for _, g := range r.P.ModuleFuncs(s.pkg) {
				if g.Parent() == nil && hasPair(g) {
					f = g
				}
			}
		}
		intro := NM{"sendSyncIntroduction", func(in ssa.Instruction) bool {
			cl, ok := in.(*ssa.Call)
			return ok && (strings.HasSuffix(ssax.CalleeName(cl.Common()), ".sendSyncIntroduction") || strings.HasSuffix(ssax.CalleeName(cl.Common()), ".handleSyncIntroductions"))
		}}
		exec := ssax.Find(f, func(in ssa.Instruction) bool {
			cl, ok := in.(*ssa.Call)
			return ok && (strings.HasSuffix(ssax.CalleeName(cl.Common()), ".executeSyncWithRetry") || strings.HasSuffix(ssax.CalleeName(cl.Common()), ".executeSyncOperation"))
		})
		construct := ssax.FuncName(f) + ": sync introduction only after the transfer returned nil"
		if len(exec) == 0 || len(ssax.Find(f, intro.M)) == 0 {
			r.Undecide(rule, construct, r.fpos(f), "executeSyncWithRetry or sendSyncIntroduction not found in syncSnapshot")
			continue
		}
		ok := true
		for _, in := range ssax.Find(f, intro.M) {
			g := false
			for _, e := range exec {
				if ssax.GuardedByErrNil(in, e.(*ssa.Call)) {
					g = true
				}
			}
			ok = ok && g
		}
		r.Check(ok, rule, construct, r.pos(exec[0]), "the parts are removed from the sender's snapshot only on the err == nil outcome of the transfer")
	}

	// a completion message finalizes the part only after the receiver has compared what it received with what the
	// sender says it sent (chunk / byte totals, nothing left in the reordering buffer), and only if that check passed
	if f := r.fn("c17.completion-verified-before-finish", sub, "(*server).handleCompletion"); f != nil {
		rule := "c17.completion-verified-before-finish"
		construct := ssax.FuncName(f) + ": FinishSync only after the sender's totals were verified"
		var readsTotals func(fn *ssa.Function, d int) bool
		readsTotals = func(fn *ssa.Function, d int) bool {
			if fn == nil || fn.Blocks == nil {
				return false
			}
			for _, b := range fn.Blocks {
				for _, in := range b.Instrs {
					if cc := ssax.Common(in); cc != nil {
						nm := ssax.CalleeName(cc)
						if strings.HasSuffix(nm, ").GetTotalChunks") || strings.HasSuffix(nm, ").GetTotalBytesSent") {
							return true
						}
						if d > 0 && readsTotals(cc.StaticCallee(), d-1) {
							return true
						}
					}
					if fa, ok := in.(*ssa.FieldAddr); ok {
						if fv := ssax.FieldOf(fa); fv != nil && (fv.Name() == "TotalChunks" || fv.Name() == "TotalBytesSent") {
							return true
						}
					}
				}
			}
			return false
		}
		isVerify := func(in ssa.Instruction) bool {
			c, ok := in.(*ssa.Call)
			return ok && c.Call.StaticCallee() != nil && readsTotals(c.Call.StaticCallee(), 2)
		}
		finish := func(in ssa.Instruction) bool {
			cc := ssax.Common(in)
			return cc != nil && strings.HasSuffix(ssax.CalleeName(cc), ".FinishSync")
		}
		verifies := ssax.Find(f, isVerify)
		inline := readsTotals(f, 0)
		switch {
		case len(ssax.Find(f, finish)) == 0:
			r.Undecide(rule, construct, r.fpos(f), "no FinishSync call")
		case len(verifies) == 0 && !inline:
			r.Violate(rule, construct, r.fpos(f), "the completion's TotalChunks / TotalBytesSent are never looked at: a lost chunk followed by the completion installs a truncated part and the session is answered SYNC_COMPLETE success")
		case len(verifies) == 0:
			r.Hold(rule, construct, r.fpos(f), "totals compared inline")
		default:
			bad := false
			if tgt, path, found := (ssax.Search{Target: finish, Avoid: isVerify}).From(f, nil); found {
				bad = true
				r.Violate(rule, construct, r.pos(tgt), fmt.Sprintf("FinishSync is reachable (blocks %s) without the verification call", blocksStr(path)))
			}
			for _, v := range verifies {
				var e ssa.Value
				c := v.(*ssa.Call)
				if c.Common().Signature().Results().Len() == 1 {
					e = c
				}
				if e == nil {
					continue
				}
				atom := func(x ssa.Value) (bool, bool) {
					bo, ok := x.(*ssa.BinOp)
					if !ok || bo.Op != token.NEQ && bo.Op != token.EQL {
						return false, false
					}
					if bo.X == e && ssax.IsNilConst(bo.Y) || bo.Y == e && ssax.IsNilConst(bo.X) {
						return bo.Op == token.NEQ, true
					}
					return false, false
				}
				if tgt, path, found := worldSearch(f, v, finish, atom); found && !bad {
					bad = true
					r.Violate(rule, construct, r.pos(tgt), fmt.Sprintf("FinishSync is reachable (blocks %s) although the verification at %s failed", blocksStr(path), r.pos(v)))
				}
			}
			if !bad {
				r.Hold(rule, construct, r.pos(verifies[0]), fmt.Sprintf("%d verification call(s) dominate FinishSync and gate it", len(verifies)))
			}
		}
	}

	// trace ships core and secondary-index parts in one stream; the receiver opens a new part context whenever
	// the part id changes, so the parts of one id must be adjacent: the list is sorted by (ID, PartType) with a
	// comparator decided over all orderings, on every path to the hand-over
	if f := r.fn("c17.streaming-parts-sorted", sibT.pkg, "(*tsTable).syncPartsToNodesHelper"); f != nil {
		rule := "c17.streaming-parts-sorted"
		ship := call("(*" + sibT.pkg + ".tsTable).syncStreamingPartsToNode")
		sorted := call("sort.Slice", "slices.SortFunc", "sort.SliceStable", "slices.SortStableFunc")
		construct := ssax.FuncName(f) + ": streaming parts are sorted before every hand-over to the node"
		ships := ssax.Find(f, ship.M)
		if len(ships) == 0 {
			r.Undecide(rule, construct, r.fpos(f), "no syncStreamingPartsToNode call")
		} else {
			bad := false
			for _, sh := range ships {
				// the list handed over must have been sorted after its last append on every path:
				// search backwards = from every append to the ship avoiding a sort
				lst := sh.(*ssa.Call).Call.Args[len(sh.(*ssa.Call).Call.Args)-1]
				for _, app := range ssax.Find(f, func(in ssa.Instruction) bool {
					c, ok := in.(*ssa.Call)
					if !ok {
						return false
					}
					b, ok := c.Call.Value.(*ssa.Builtin)
					return ok && b.Name() == "append" && c.Type().String() == lst.Type().String()
				}) {
					if tgt, path, found := (ssax.Search{Target: func(x ssa.Instruction) bool { return x == sh }, Avoid: sorted.M}).From(f, app); found {
						bad = true
						r.Violate(rule, construct, r.pos(tgt), fmt.Sprintf("a part appended at %s reaches the hand-over at %s (blocks %s) without the list being sorted: the wire order becomes [sidx:1, sidx:2, core:1, core:2], the receiver finishes a sidx-only context per id and discards the index files, and the parts are acknowledged", r.pos(app), r.pos(tgt), blocksStr(path)))
						break
					}
				}
			}
			if !bad {
				r.Hold(rule, construct, r.pos(ships[0]), fmt.Sprintf("%d hand-over site(s)", len(ships)))
			}
		}
	}

	// the liaison merges mem parts per time segment: the group accumulator is emptied whenever the segment
	// id changes, before the first part of the next segment is added
	for _, s := range sibsMST {
		rule := "c17.mem-merge-per-segment"
		f := r.fn(rule, s.pkg, "(*tsTable).mergeMemParts")
		if f == nil {
			continue
		}
		// the accumulator: a local []*partWrapper cell that is appended to
		var cell *ssa.Alloc
		for _, b := range f.Blocks {
			for _, in := range b.Instrs {
				al, ok := in.(*ssa.Alloc)
				if !ok {
					continue
				}
				if sl, ok := al.Type().(*types.Pointer).Elem().Underlying().(*types.Slice); ok && strings.HasSuffix(sl.Elem().String(), ".partWrapper") {
					cell = al
				}
			}
		}
		construct := ssax.FuncName(f) + ": group accumulator reset between segments"
		if cell == nil {
			r.Undecide(rule, construct, r.fpos(f), "no []*partWrapper accumulator cell found")
			continue
		}
		fromCell := func(v ssa.Value) bool {
			l, ok := v.(*ssa.UnOp)
			return ok && l.Op == token.MUL && l.X == cell
		}
		isAppendStore := func(in ssa.Instruction) bool {
			st, ok := in.(*ssa.Store)
			if !ok || st.Addr != cell {
				return false
			}
			c, ok := st.Val.(*ssa.Call)
			if !ok {
				return false
			}
			b, ok := c.Call.Value.(*ssa.Builtin)
			return ok && b.Name() == "append" && fromCell(c.Call.Args[0])
		}
		isResetStore := func(in ssa.Instruction) bool {
			st, ok := in.(*ssa.Store)
			if !ok || st.Addr != cell {
				return false
			}
			switch x := st.Val.(type) {
			case *ssa.Slice:
				k, ok := x.High.(*ssa.Const)
				return ok && k.Value != nil && k.Int64() == 0
			case *ssa.Const:
				return x.Value == nil
			case *ssa.MakeSlice:
				return true
			}
			return false
		}
		n, bad := 0, false
		for _, b := range f.Blocks {
			iff, ok := b.Instrs[len(b.Instrs)-1].(*ssa.If)
			if !ok {
				continue
			}
			bo, ok := iff.Cond.(*ssa.BinOp)
			if !ok || bo.Op != token.NEQ && bo.Op != token.EQL || !condReadsField(bo, "segmentID", 0) {
				continue
			}
			if k, ok := bo.Y.(*ssa.Const); ok && k.Value != nil {
				continue // comparison with a constant (the "no segment yet" test)
			}
			differs := b.Succs[0]
			if bo.Op == token.EQL {
				differs = b.Succs[1]
			}
			n++
			first := differs.Instrs[0]
			if isResetStore(first) {
				continue
			}
			if tgt, path, found := (ssax.Search{Target: isAppendStore, Avoid: isResetStore}).From(f, first); found || isAppendStore(first) {
				bad = true
				r.Violate(rule, construct, r.pos(iff), fmt.Sprintf("after the segment id is found to differ (%s) the next part is appended at %s (blocks %s) without the accumulator having been emptied: mem parts of two time segments are merged into one part, which the data node installs into a single segment", r.pos(iff), r.pos(tgt), blocksStr(path)))
			}
		}
		switch {
		case n == 0:
			r.Undecide(rule, construct, r.fpos(f), "no comparison of segment ids found")
		case !bad:
			r.Hold(rule, construct, r.fpos(f), fmt.Sprintf("%d segment-change test(s)", n))
		}
	}
}

// constsByValueRev: name -> exact value string of the constants of a named type.
func (r *R) constsByValueRev(pkgRel, typ string) map[string]string {
	out := map[string]string{}
	for v, n := range r.constsByValue(pkgRel, typ) {
		out[n] = v
	}
	return out
}
