package rules

import (
	"fmt"
	"go/ast"
	"go/token"
	"go/types"
	"sort"
	"strings"

	"golang.org/x/tools/go/ssa"

	"bvcheck/internal/ssax"
)

// Engine E5: case-set / field-set agreement on the typed syntax tree.

// constSet is a set of constant (or type) names with the position of the construct they came from.
type constSet struct {
	names      map[string]bool
	hasDefault bool
	found      bool
}

func (s constSet) list() []string {
	var out []string
	for n := range s.names {
		out = append(out, n)
	}
	sort.Strings(out)
	return out
}

func typeNameOf(t types.Type) string {
	t = types.Unalias(t)
	if n, ok := t.(*types.Named); ok {
		return n.Obj().Name()
	}
	if p, ok := t.(*types.Pointer); ok {
		return "*" + typeNameOf(p.Elem())
	}
	return t.String()
}

// caseConsts collects, from fn's syntax (closures included), the constants of the named type typ that are
// discriminated on: case labels of switches whose tag has that type, and operands of ==/!= comparisons
// (if-form and switch-form both). For type switches over values of interface type named typ ("" = any) it
// collects the case type names instead when typeSwitch is set.
func (r *R) caseConsts(fn *ssa.Function, typ string, typeSwitch bool) constSet {
	out := constSet{names: map[string]bool{}}
	decl, pk := r.P.FuncDecl(fn)
	var body ast.Node
	if decl != nil {
		body = decl
	} else if lit, ok := fn.Syntax().(*ast.FuncLit); ok {
		outer := fn
		for outer.Parent() != nil {
			outer = outer.Parent()
		}
		_, pk = r.P.FuncDecl(outer)
		body = lit
	}
	if body == nil || pk == nil {
		return out
	}
	info := pk.TypesInfo
	constName := func(e ast.Expr) (string, bool) {
		var id *ast.Ident
		switch x := e.(type) {
		case *ast.Ident:
			id = x
		case *ast.SelectorExpr:
			id = x.Sel
		}
		if id == nil {
			return "", false
		}
		c, ok := info.Uses[id].(*types.Const)
		if !ok {
			return "", false
		}
		if typeNameOf(c.Type()) != typ {
			return "", false
		}
		return c.Name(), true
	}
	ast.Inspect(body, func(n ast.Node) bool {
		switch x := n.(type) {
		case *ast.SwitchStmt:
			if x.Tag == nil {
				return true
			}
			tv, ok := info.Types[x.Tag]
			if !ok || typeNameOf(tv.Type) != typ || typeSwitch {
				return true
			}
			out.found = true
			for _, cs := range x.Body.List {
				cc := cs.(*ast.CaseClause)
				if cc.List == nil {
					out.hasDefault = true
				}
				for _, e := range cc.List {
					if n, ok := constName(e); ok {
						out.names[n] = true
					}
				}
			}
		case *ast.TypeSwitchStmt:
			if !typeSwitch {
				return true
			}
			out.found = true
			for _, cs := range x.Body.List {
				cc := cs.(*ast.CaseClause)
				if cc.List == nil {
					out.hasDefault = true
				}
				for _, e := range cc.List {
					if tv, ok := info.Types[e]; ok && tv.IsType() {
						out.names[typeNameOf(tv.Type)] = true
					}
				}
			}
		case *ast.BinaryExpr:
			if typeSwitch || (x.Op != token.EQL && x.Op != token.NEQ) {
				return true
			}
			if n, ok := constName(x.X); ok {
				out.names[n] = true
				out.found = true
			}
			if n, ok := constName(x.Y); ok {
				out.names[n] = true
				out.found = true
			}
		}
		return true
	})
	return out
}

// returnedConsts collects the constants of named type typ that fn can return in result slot idx.
func (r *R) returnedConsts(fn *ssa.Function, typ string, idx int) constSet {
	out := constSet{names: map[string]bool{}}
	decl, pk := r.P.FuncDecl(fn)
	if decl == nil || pk == nil {
		return out
	}
	ast.Inspect(decl, func(n ast.Node) bool {
		if _, isLit := n.(*ast.FuncLit); isLit {
			return false
		}
		ret, ok := n.(*ast.ReturnStmt)
		if !ok || idx >= len(ret.Results) {
			return true
		}
		var id *ast.Ident
		switch x := ret.Results[idx].(type) {
		case *ast.Ident:
			id = x
		case *ast.SelectorExpr:
			id = x.Sel
		}
		if id != nil {
			if c, ok := pk.TypesInfo.Uses[id].(*types.Const); ok && typeNameOf(c.Type()) == typ {
				out.names[c.Name()] = true
				out.found = true
			}
		}
		return true
	})
	return out
}

// enumValues lists the constants of named type typ declared in package pkgRel (generated enums).
func (r *R) enumValues(pkgRel, typ string) []string {
	pk := r.P.Pkg(pkgRel)
	if pk == nil || pk.Types == nil {
		return nil
	}
	var out []string
	sc := pk.Types.Scope()
	for _, n := range sc.Names() {
		if c, ok := sc.Lookup(n).(*types.Const); ok && typeNameOf(c.Type()) == typ {
			out = append(out, c.Name())
		}
	}
	sort.Strings(out)
	return out
}

func without(list []string, drop func(string) bool) []string {
	var out []string
	for _, x := range list {
		if !drop(x) {
			out = append(out, x)
		}
	}
	return out
}

func setDiff(a, b []string) []string {
	m := map[string]bool{}
	for _, x := range b {
		m[x] = true
	}
	var out []string
	for _, x := range a {
		if !m[x] {
			out = append(out, x)
		}
	}
	return out
}

// sameSet records one obligation: the two named sets are equal (or a ⊆ b when subset).
func (r *R) sameSet(rule, construct, pos string, aName string, a []string, bName string, b []string, subset bool) bool {
	missB := setDiff(a, b)
	missA := setDiff(b, a)
	r.Stat("table_entries", len(a)+len(b))
	if len(a) == 0 || len(b) == 0 {
		r.Undecide(rule, construct, pos, fmt.Sprintf("empty set: %s has %d entries, %s has %d (switch or enum no longer resolves)", aName, len(a), bName, len(b)))
		return false
	}
	if len(missB) > 0 || (!subset && len(missA) > 0) {
		msg := ""
		if len(missB) > 0 {
			msg += fmt.Sprintf("%s handles {%s} which %s does not; ", aName, strings.Join(missB, ", "), bName)
		}
		if !subset && len(missA) > 0 {
			msg += fmt.Sprintf("%s handles {%s} which %s does not", bName, strings.Join(missA, ", "), aName)
		}
		r.Violate(rule, construct, pos, msg)
		return false
	}
	r.Hold(rule, construct, pos, fmt.Sprintf("%d entries: {%s}", len(a), strings.Join(a, ", ")))
	return true
}

var _ = ssax.Short

// typeSwitchReturns maps, for the first type switch in fn, each case type name to the constant returned in
// that clause (first result).
func (r *R) typeSwitchReturns(fn *ssa.Function) map[string]string {
	out := map[string]string{}
	decl, pk := r.P.FuncDecl(fn)
	if decl == nil || pk == nil {
		return out
	}
	ast.Inspect(decl, func(n ast.Node) bool {
		ts, ok := n.(*ast.TypeSwitchStmt)
		if !ok {
			return true
		}
		for _, cs := range ts.Body.List {
			cc := cs.(*ast.CaseClause)
			ret := ""
			ast.Inspect(cc, func(m ast.Node) bool {
				if rs, ok := m.(*ast.ReturnStmt); ok && len(rs.Results) > 0 && ret == "" {
					var id *ast.Ident
					switch x := rs.Results[0].(type) {
					case *ast.Ident:
						id = x
					case *ast.SelectorExpr:
						id = x.Sel
					}
					if id != nil {
						if c, ok := pk.TypesInfo.Uses[id].(*types.Const); ok {
							ret = c.Name()
						}
					}
				}
				return true
			})
			for _, e := range cc.List {
				if tv, ok := pk.TypesInfo.Types[e]; ok && tv.IsType() {
					out[typeNameOf(tv.Type)] = ret
				}
			}
		}
		return false
	})
	return out
}
