package rules

import (
	"fmt"
	"go/constant"
	"go/token"
	"go/types"
	"math"
	"strings"

	"golang.org/x/tools/go/ssa"

	"bvcheck/internal/core"
	"bvcheck/internal/ssax"
)

func init() {
	register(&core.Property{
		ID:    "C10",
		Title: "Aggregates, group-by and top-N equal a reference; partials compose",
		Decides: "every string component of the measure group-by key enters the hash length-prefixed (different tag tuples cannot feed the same bytes); the aggregation function tables agree: the functions constructible as Map = as Reduce = the vectorized mapping = the proto enum (minus UNSPECIFIED); partial→wire and wire→partial special-case the same function set (MEAN carries a count) and the vectorized partial writer puts Partial.Count into the count column and Partial.Value into the value column for every numeric kind; " +
			"the identity elements of MIN/MAX are the extreme values of their domain; the per-node query template of the distributed measure plan pushes down group-by/aggregation but never top-N; replica de-duplication precedes the reduce; the top-N heaps order by value in the direction their role requires.; in the vectorized distributed plan a request-derived node Limit does not survive to the exit when the node request aggregates (partials are never limited on the nodes)",
		NotDecided: "any arithmetic (sums, means, overflow, float association), heap-based top-N contents, equality with a reference implementation.",
		Technique:  "case-set agreement on the typed syntax tree against the generated proto enum; SSA def-use of wire columns; constant evaluation of identity elements; comparator truth tables",
		Run:        runC10,
	})
}

func runC10(c *core.Ctx) {
	r := newR(c)
	const agg = "pkg/query/aggregation"
	const enumPkg = "api/proto/banyandb/model/v1"
	enum := without(r.enumValues(enumPkg, "AggregationFunction"), func(s string) bool { return strings.HasSuffix(s, "_UNSPECIFIED") })
	rule := "c10.function-tables"
	var mapSet, redSet []string
	if f := r.fn(rule, agg, "NewMap"); f != nil {
		mapSet = r.caseConsts(f, "AggregationFunction", false).list()
		r.sameSet(rule, "aggregation.NewMap cases = proto AggregationFunction", r.fpos(f), "NewMap", mapSet, "proto enum", enum, false)
	}
	if f := r.fn(rule, agg, "NewReduce"); f != nil {
		redSet = r.caseConsts(f, "AggregationFunction", false).list()
		r.sameSet(rule, "aggregation.NewReduce cases = NewMap cases", r.fpos(f), "NewReduce", redSet, "NewMap", mapSet, false)
	}
	if f := r.fn(rule, "pkg/query/vectorized/measure", "toModelAggFunc"); f != nil {
		got := without(r.returnedConsts(f, "AggregationFunction", 0).list(), func(s string) bool { return strings.HasSuffix(s, "_UNSPECIFIED") })
		r.sameSet(rule, "vectorized toModelAggFunc image = NewMap cases", r.fpos(f), "toModelAggFunc", got, "NewMap", mapSet, false)
	}
	// every switch over AggregationFunction in the vectorized measure package covers the same functions
	for _, f := range r.P.ModuleFuncs("pkg/query/vectorized/measure", "pkg/query/logical/measure") {
		cs := r.caseConsts(f, "AggregationFunction", false)
		if !cs.found || len(cs.names) < 3 {
			continue
		}
		got := without(cs.list(), func(s string) bool { return strings.HasSuffix(s, "_UNSPECIFIED") })
		r.sameSet(rule, ssax.FuncName(f)+" cases = NewMap cases", r.fpos(f), ssax.FuncName(f), got, "NewMap", mapSet, false)
	}
	r.Floor(rule, 4)

	// emit/consume agreement for partials
	rule = "c10.partial-wire"
	var emit, consume []string
	if f := r.fn(rule, agg, "PartialToFieldValues"); f != nil {
		emit = r.caseConsts(f, "AggregationFunction", false).list()
	}
	if f := r.fn(rule, agg, "FieldValuesToPartial"); f != nil {
		consume = r.caseConsts(f, "AggregationFunction", false).list()
		r.sameSet(rule, "functions with a count side-car: PartialToFieldValues = FieldValuesToPartial", r.fpos(f), "PartialToFieldValues", emit, "FieldValuesToPartial", consume, false)
	}
	if f := r.fn(rule, "pkg/query/vectorized/measure", "(*aggSlot).writePartial"); f != nil {
		n := 0
		for _, in := range ssax.Find(f, func(in ssa.Instruction) bool {
			c, ok := in.(*ssa.Call)
			return ok && strings.HasSuffix(ssax.CalleeName(c.Common()), ").Append") && strings.Contains(ssax.CalleeName(c.Common()), "TypedColumn")
		}) {
			n++
			cl := in.(*ssa.Call)
			col, v := cl.Call.Args[0], cl.Call.Args[1]
			want := ""
			switch {
			case flowsFromParamNamed(col, "arg2", 0):
				want = "Count"
			case flowsFromParamNamed(col, "arg1", 0):
				want = "Value"
			}
			if ld, ok := v.(*ssa.UnOp); ok {
				v = ld.X
			}
			fld := ssax.FieldOf(v)
			got := ""
			if fld != nil {
				got = fld.Name()
			}
			r.Check(want != "" && got == want, rule, fmt.Sprintf("%s: Append#%d writes Partial.%s", ssax.FuncName(f), n, want), r.pos(in), fmt.Sprintf("the %s column receives Partial.%s (found Partial.%s)", strings.ToLower(want), want, got))
		}
	}
	r.Floor(rule, 5)

	// identity elements
	rule = "c10.identity-elements"
	for _, spec := range []struct {
		fn  string
		low bool
	}{{"minOf", true}, {"maxOf", false}} {
		f := r.fn(rule, agg, spec.fn)
		if f == nil {
			continue
		}
		n := 0
		for _, in := range ssax.Find(f, func(in ssa.Instruction) bool { _, ok := in.(*ssa.Store); return ok }) {
			st := in.(*ssa.Store)
			k, ok := st.Val.(*ssa.Const)
			if !ok || k.Value == nil {
				continue
			}
			n++
			good := false
			what := ""
			switch k.Value.Kind() {
			case constant.Int:
				v, _ := constant.Int64Val(k.Value)
				good = spec.low && v == math.MinInt64 || !spec.low && v == math.MaxInt64
				what = fmt.Sprintf("int64 %d", v)
			case constant.Float:
				v, _ := constant.Float64Val(k.Value)
				good = spec.low && v <= -math.MaxFloat64 || !spec.low && v >= math.MaxFloat64
				what = fmt.Sprintf("float64 %g", v)
			}
			r.Check(good, rule, fmt.Sprintf("aggregation.%s: sentinel#%d is the extreme of its domain", spec.fn, n), r.pos(in), "the initial value of a running max (min) must be ≤ (≥) every representable value; found "+what)
		}
	}
	r.Floor(rule, 4)

	// distributed plan: no top-N in the node template; dedup before reduce
	rule = "c10.distributed-plan"
	nTop := 0
	for _, f := range r.P.ModuleFuncs("pkg/query/logical/measure") {
		for _, in := range ssax.Find(f, ssax.StoreTo("api/proto/banyandb/measure/v1.QueryRequest.Top", nil)) {
			nTop++
			r.Violate(rule, ssax.FuncName(f)+": node query template carries Top", r.pos(in), "top-N is pushed down to the data nodes: each node would rank only its local partial aggregates and the coordinator would reduce an incomplete set of groups")
		}
	}
	if f := r.fn(rule, "pkg/query/logical/measure", "(*unresolvedDistributed).Analyze"); f != nil {
		r.Hold(rule, ssax.FuncName(f)+": node query template never carries Top", r.fpos(f), fmt.Sprintf("%d stores to QueryRequest.Top in pkg/query/logical/measure", nTop))
		r.mustSeq(rule, f, exitOK(f), ssax.PruneCond("recv.pushDownAgg", false), NM{"template.Agg = query.Agg", ssax.StoreTo("api/proto/banyandb/measure/v1.QueryRequest.Agg", nil)})
	}
	r.Floor(rule, 2)

	// top-N comparators
	rule = "c10.topn-order"
	// the output list and the bounded heap must order in opposite directions: the list yields the requested order
	// (descending unless reverted), the heap keeps the element to evict at its root (ascending unless reverted)
	r.cmpLex(rule, "pkg/query/logical/measure", "topSortedList.Less", ij, "by value, ascending iff reverted", kspec{Match: "value", AscFlag: "reverted"})
	r.cmpLex(rule, "pkg/query/logical/measure", "topHeap.Less", ij, "by value, descending iff reverted (root = element to evict)", kspec{Match: "value", DescFlag: "reverted"})
	r.Floor(rule, 2)

	// aggregation partials are never limited on the data nodes: whenever the per-node request carries an Agg, the
	// Limit it is sent with is the unbounded constant — limit / offset apply after the liaison-side reduce
	{
		rule := "c10.agg-partials-unlimited"
		n := 0
		// (vectorized plan only: its data nodes apply Limit after the Map-phase group-by; the row plan's data nodes
		// ignore the request limit under aggregation — pushedLimit = MaxInt — so its liaison may send any value)
		for _, spec := range []struct{ pkg, fn string }{{"pkg/query/vectorized/measure/plan", "AnalyzeDistributed"}} {
			f := r.fn(rule, spec.pkg, spec.fn)
			if f == nil {
				continue
			}
			isLimitStore := func(in ssa.Instruction) bool {
				st, ok := in.(*ssa.Store)
				return ok && strings.HasSuffix(ssax.FieldQName(st.Addr), "measure/v1.QueryRequest.Limit")
			}
			isUnbounded := func(in ssa.Instruction) bool {
				st, ok := in.(*ssa.Store)
				if !ok || !isLimitStore(in) {
					return false
				}
				k, ok := st.Val.(*ssa.Const)
				return ok && k.Value != nil && (k.Value.ExactString() == "4294967295" || k.Value.ExactString() == "2147483647" || k.Value.ExactString() == "9223372036854775807")
			}
			// world: the node request aggregates (GetAgg() != nil / pushDownAgg)
			atom := func(v ssa.Value) (bool, bool) {
				bo, ok := v.(*ssa.BinOp)
				if ok && (bo.Op == token.NEQ || bo.Op == token.EQL) {
					for _, side := range []ssa.Value{bo.X, bo.Y} {
						if c, isC := side.(*ssa.Call); isC && strings.HasSuffix(ssax.CalleeName(c.Common()), ").GetAgg") {
							return bo.Op == token.NEQ, true
						}
					}
				}
				if fv := ssax.FieldOf(v); fv != nil && fv.Name() == "pushDownAgg" {
					return true, true
				}
				if u, ok := v.(*ssa.UnOp); ok && u.Op == token.MUL {
					if fv := ssax.FieldOf(u.X); fv != nil && fv.Name() == "pushDownAgg" {
						return true, true
					}
				}
				return false, false
			}
			for _, st := range ssax.Find(f, isLimitStore) {
				if isUnbounded(st) {
					continue
				}
				if _, _, reachable := worldSearch(f, nil, func(in ssa.Instruction) bool { return in == st }, atom); !reachable {
					continue // this store cannot execute when the node request aggregates
				}
				n++
				construct := fmt.Sprintf("%s: bounded node Limit #%d does not survive when the node request aggregates", ssax.FuncName(f), n)
				if tgt, path, found := worldSearchAvoid(f, st, ssax.SuccessExit(f), isUnbounded, atom); found {
					r.Violate(rule, construct, r.pos(st), fmt.Sprintf("with an aggregation in the node request the limit stored at %s (derived from the request's limit/offset) is still in force at the exit %s (blocks %s): each node returns only its first groups and the reduced result misses the other nodes' contributions", r.pos(st), r.pos(tgt), blocksStr(path)))
				} else {
					r.Hold(rule, construct, r.pos(st), "overwritten by the unbounded constant on every path where the request aggregates")
				}
			}
		}
		r.Floor(rule, 1)
	}

	// the group-by key is a hash over the tuple of tag values: every variable-length component (a string) fed to
	// the hash must be preceded by its own length, otherwise ("ab","c") and ("a","bc") feed the same bytes and
	// form one group — and the liaison drops the second group's partial as a replica duplicate (F46)
	{
		rule := "c10.group-key-self-delimiting"
		if f := r.fn(rule, "pkg/query/logical/measure", "formatGroupByKey"); f != nil {
			isHashWrite := func(in ssa.Instruction) (data ssa.Value, ok bool) {
				cl, isCall := in.(*ssa.Call)
				if !isCall || len(cl.Call.Args) < 2 {
					return nil, false
				}
				nm := ssax.CalleeName(cl.Common())
				if !strings.Contains(nm, "xxhash") || !(strings.HasSuffix(nm, ").Write") || strings.HasSuffix(nm, ").WriteString")) {
					return nil, false
				}
				return cl.Call.Args[1], true
			}
			isString := func(v ssa.Value) bool {
				b, ok := v.Type().Underlying().(*types.Basic)
				return ok && b.Info()&types.IsString != 0
			}
			var strOf func(v ssa.Value, d int) ssa.Value
			strOf = func(v ssa.Value, d int) ssa.Value {
				if d > 6 || v == nil {
					return nil
				}
				if isString(v) {
					return v
				}
				switch x := v.(type) {
				case *ssa.Convert:
					return strOf(x.X, d+1)
				case *ssa.Slice:
					return strOf(x.X, d+1)
				case *ssa.ChangeType:
					return strOf(x.X, d+1)
				}
				return nil
			}
			var carriesLenOf func(v, s ssa.Value, d int) bool
			carriesLenOf = func(v, s ssa.Value, d int) bool {
				if d > 10 || v == nil {
					return false
				}
				if cl, ok := v.(*ssa.Call); ok {
					if b, isB := cl.Call.Value.(*ssa.Builtin); isB && b.Name() == "len" && len(cl.Call.Args) == 1 && cl.Call.Args[0] == s {
						return true
					}
				}
				return anyOperand(v, func(o ssa.Value) bool { return carriesLenOf(o, s, d+1) })
			}
			var writes []ssa.Instruction
			for _, in := range ssax.Find(f, func(in ssa.Instruction) bool { _, ok := isHashWrite(in); return ok }) {
				writes = append(writes, in)
			}
			n := 0
			for _, w := range writes {
				data, _ := isHashWrite(w)
				sv := strOf(data, 0)
				if sv == nil {
					continue // fixed-width component (integer bytes, kind marker)
				}
				n++
				construct := fmt.Sprintf("%s: string component #%d is length-prefixed in the hash", ssax.FuncName(f), n)
				ok := false
				for _, l := range writes {
					if l == w || !ssax.Dominates(l, w) {
						continue
					}
					if ld, _ := isHashWrite(l); carriesLenOf(ld, sv, 0) {
						ok = true
					}
				}
				if ok {
					r.Hold(rule, construct, r.pos(w), "")
				} else {
					r.Violate(rule, construct, r.pos(w), "the string's bytes enter the group-key hash with nothing marking where the component ends: tuples such as (\"ab\",\"c\") and (\"a\",\"bc\") get the same key, are aggregated as one group, and a second group's partial is dropped as a replica duplicate")
				}
			}
			if n == 0 {
				r.Undecide(rule, ssax.FuncName(f), r.fpos(f), "no string component written to the group-key hash was recognised")
			}
		}
		r.Floor(rule, 1)
	}
}

func flowsFromParamNamed(v ssa.Value, pname string, depth int) bool {
	if depth > 14 || v == nil {
		return false
	}
	if p, ok := v.(*ssa.Parameter); ok {
		return ssax.ParamName(p) == pname
	}
	return anyOperand(v, func(o ssa.Value) bool { return flowsFromParamNamed(o, pname, depth+1) })
}
