package rules

import (
	"fmt"
	"go/token"

	"golang.org/x/tools/go/ssa"

	"bvcheck/internal/cmpeval"
	"bvcheck/internal/core"
	"bvcheck/internal/ssax"
)

func init() {
	register(&core.Property{
		ID:    "C02",
		Title: "Highest version wins: one point per series and timestamp",
		Decides: "the two comparators version resolution rests on induce exactly the stated orders — measure.dataPoints.Less ≡ lex(seriesID↑, timestamp↑, version↓) (so the first of equal (series,timestamp) rows is the highest version, which the write-path de-duplication keeps) and measure.queryResult.Less ≡ lex(ts by direction, seriesID↑, version↓) / lex(series position↑, ts↑, version↓) — over every weak ordering of their operands; " +
			"the batch is sorted before the duplicate-skipping loop runs, and within that loop the per-series timestamp cursor is re-based whenever the series cursor changes; merge (mergeTwoBlocks) and query (queryResult.Less) read the two versions they compare at exactly the indices whose timestamps they found equal; every window of the versions column copied in package measure has a timestamps window with canonically equal bounds (the columns stay row-parallel).",
		NotDecided: "which rows the equal-timestamp branch of mergeTwoBlocks appends and the replace decision of queryResult.merge (index arithmetic over loop state, outside the comparison-only fragment), hence not the agreement of write path, merge and query on every input; equal-version ties.",
		Technique:  "finite-domain abstract interpretation of comparator syntax trees over all weak orderings of their atoms; CFG dominance; per-iteration path enumeration of paired loop-carried updates; canonical symbolic expression equality of indices and slice bounds",
		Run:        runC02,
	})
}

func runC02(c *core.Ctx) {
	r := newR(c)
	const m = "banyand/measure"
	r.cmpFunc("c02.comparator", m, "(*dataPoints).Less", "lex(seriesID↑, timestamp↑, version↓)",
		lex(key("$r.seriesIDs[$0]", "$r.seriesIDs[$1]"), key("$r.timestamps[$0]", "$r.timestamps[$1]"), keyDesc("$r.versions[$0]", "$r.versions[$1]")), 27)
	ts := func(i string) string { return "$r.data[" + i + "].timestamps[$r.data[" + i + "].idx]" }
	ver := func(i string) string { return "$r.data[" + i + "].versions[$r.data[" + i + "].idx]" }
	sid := func(i string) string { return "$r.data[" + i + "].bm.seriesID" }
	sidx := func(i string) string { return "$r.sidToIndex[" + sid(i) + "]" }
	r.cmpFunc("c02.comparator", m, "queryResult.Less", "orderByTS ? lex(ts by ascTS, seriesID↑, version↓) : lex(series position↑, ts↑, version↓)",
		func(w *cmpeval.World) bool {
			if w.Flag("$r.orderByTS") {
				return w.LexLess(cmpeval.Key{L: ts("$0"), R: ts("$1"), Desc: !w.Flag("$r.ascTS")}, key(sid("$0"), sid("$1")), keyDesc(ver("$0"), ver("$1")))
			}
			return w.LexLess(key(sidx("$0"), sidx("$1")), key(ts("$0"), ts("$1")), keyDesc(ver("$0"), ver("$1")))
		}, 100)
	r.Floor("c02.comparator", 2)

	// sort before the duplicate-skipping loop
	if f := r.fn("c02.sorted-before-dedup", m, "(*memPart).mustInitFromDataPoints"); f != nil {
		r.neverBefore("c02.sorted-before-dedup", f, call("sort.Sort"), call("(*"+m+".dataPoints).skip"), nil)
		// the value sorted is the batch whose rows are skipped
		for _, s := range ssax.Find(f, ssax.CallTo("sort.Sort")) {
			arg := s.(*ssa.Call).Call.Args[0]
			ok := false
			if mi, isMI := arg.(*ssa.MakeInterface); isMI {
				ok = ssax.Path(mi.X) == "arg0"
			}
			r.Check(ok, "c02.sorted-before-dedup", ssax.FuncName(f)+": sort.Sort sorts the batch parameter", r.pos(s), "the sorted value is the dataPoints batch being de-duplicated")
		}
		// the two cursors are selected by their role, not by their names: the block-start cursor is the loop
		// variable used as the low bound of the column windows handed to the writer, the timestamp cursor the
		// int64 loop variable compared for equality with a timestamps element
		usedAs := func(pred func(in ssa.Instruction, p *ssa.Phi) bool) func(*ssa.Phi) bool {
			return func(p *ssa.Phi) bool {
				refs := p.Referrers()
				if refs == nil {
					return false
				}
				for _, ref := range *refs {
					if pred(ref, p) {
						return true
					}
				}
				return false
			}
		}
		isBlockStart := usedAs(func(in ssa.Instruction, p *ssa.Phi) bool {
			sl, ok := in.(*ssa.Slice)
			return ok && sl.Low == ssa.Value(p)
		})
		isTsCursor := usedAs(func(in ssa.Instruction, p *ssa.Phi) bool {
			bo, ok := in.(*ssa.BinOp)
			if !ok || bo.Op != token.EQL {
				return false
			}
			other := bo.X
			if other == ssa.Value(p) {
				other = bo.Y
			}
			return flowsFromFieldNamed(other, "timestamps", 0)
		})
		r.pairedLoopUpdateSel("c02.dedup-cursors", f, "the block-start cursor", "the timestamp cursor", isBlockStart, isTsCursor, "a stale timestamp cursor makes the first rows of the next series look like duplicates of the previous series' last timestamp and drops acknowledged points")
	}

	// merge and query decide a duplicate timestamp by the versions of exactly the two colliding rows
	versionIndexAgreement(r, "c02.version-index-agreement")

	// timestamps and versions are row-parallel columns: wherever a window of one is copied, the same window
	// of the other is (otherwise a point is labelled with another point's version)
	columnWindowsAgree(r, "c02.column-windows-agree", m, "timestamps", "versions", 4)
}

// columnWindowsAgree: in every function of pkg that slices column b of some value, and also slices column a of
// the same value, each b-window [lo:hi] has an a-window with canonically equal bounds.
func columnWindowsAgree(r *R, rule, pkg, a, b string, floor int) {
	type win struct {
		base, lo, hi string
		in           ssa.Instruction
	}
	colOf := func(sl *ssa.Slice) (string, string) {
		x := sl.X
		if l, ok := x.(*ssa.UnOp); ok {
			x = l.X
		}
		fv := ssax.FieldOf(x)
		if fv == nil {
			return "", ""
		}
		var base ssa.Value
		switch y := x.(type) {
		case *ssa.FieldAddr:
			base = y.X
		case *ssa.Field:
			base = y.X
		default:
			return "", ""
		}
		return fv.Name(), ssax.Canon(base)
	}
	for _, f := range r.P.ModuleFuncs(pkg) {
		var as, bs []win
		for _, blk := range f.Blocks {
			for _, in := range blk.Instrs {
				sl, ok := in.(*ssa.Slice)
				if !ok {
					continue
				}
				col, base := colOf(sl)
				w := win{base, ssax.Canon(sl.Low), ssax.Canon(sl.High), in}
				switch col {
				case a:
					as = append(as, w)
				case b:
					bs = append(bs, w)
				}
			}
		}
		for i, w := range bs {
			if w.lo == "nil" && w.hi == "nil" {
				continue // x[:] / x[:0] style resets carry no window
			}
			var same []win
			for _, v := range as {
				if v.base == w.base && !(v.lo == "nil" && v.hi == "nil") {
					same = append(same, v)
				}
			}
			if len(same) == 0 {
				continue
			}
			ok := false
			for _, v := range same {
				if v.lo == w.lo && v.hi == w.hi {
					ok = true
				}
			}
			construct := fmt.Sprintf("%s: %s window #%d equals a %s window of the same value", ssax.FuncName(f), b, i+1, a)
			if ok {
				r.Hold(rule, construct, r.pos(w.in), "["+w.lo+":"+w.hi+"]")
			} else {
				r.Violate(rule, construct, r.pos(w.in), fmt.Sprintf("%s[%s:%s] is copied next to %s[%s:%s] of the same value: the rows of the two columns no longer line up", b, w.lo, w.hi, a, same[0].lo, same[0].hi))
			}
		}
	}
	r.Floor(rule, floor)
}
