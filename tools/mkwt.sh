#!/bin/bash
# mkwt.sh <dir>: scratch git worktree of /repo at HEAD with the generated (git-ignored) sources
# materialised — protobuf code via pbgen, mocks via mockgen from the module cache, ui/dist placeholder —
# so that engine packages build and their unit tests run there. For seeded-mutant work only; checks
# never use it. Remove with: git -C /repo worktree remove --force <dir>
set -e
d=$1
[ -n "$d" ] || { echo "usage: mkwt.sh <dir>"; exit 2; }
git -C /repo worktree add -f -q "$d" HEAD
/verif/bin/pbgen "$d/api/proto" "$d/api/proto" /verif/bin/protoc-gen-go >/dev/null
mkdir -p "$d/ui/dist" && touch "$d/ui/dist/index.html"
export GOFLAGS=-mod=mod GOPROXY=off
if [ ! -x /tmp/mockgen ]; then (cd "$d" && go build -o /tmp/mockgen go.uber.org/mock/mockgen); fi
export PATH=/tmp:$PATH
for f in $(cd "$d" && grep -rl "go:generate mockgen" --include=*.go . | grep -v "^./ui"); do
  (cd "$d/$(dirname $f)" && go generate ./$(basename $f) >/dev/null 2>&1 || echo "mockgen failed for $f")
done
echo "worktree ready: $d"
