#!/usr/bin/env python3
"""detect_seeds.py [-j N] [seed ...]: re-run every registered check against each kept seeded defect
(/verif/seeded/<seed>/patch.diff applied to a scratch worktree of /repo HEAD) and record, in meta.json, which
properties/rules report it. Writes /verif/seeded/MATRIX.md."""
import json, os, subprocess, sys, glob, shutil, tempfile, concurrent.futures as cf

# BVCHECK / DETECT_KEY let a frozen earlier build of the checker record its verdicts under another key (used for the
# unbiased round-2 measurement: seeds are first run against the checker as it was BEFORE anyone looked at them)
BV = os.environ.get('BVCHECK', '/verif/bin/bvcheck')
KEY = os.environ.get('DETECT_KEY', 'detection')

def sh(cmd, **kw):
    return subprocess.run(cmd, shell=True, stdout=subprocess.PIPE, stderr=subprocess.STDOUT, text=True, **kw)

def one(seed):
    d = f'/verif/seeded/{seed}'
    meta = json.load(open(f'{d}/meta.json'))
    wt = tempfile.mkdtemp(prefix='bvds_', dir='/tmp'); os.rmdir(wt)
    vd = wt + '_v'
    try:
        r = sh(f'git -C /repo worktree add -f --detach {wt} HEAD')
        r = sh(f'git -C {wt} apply {d}/patch.diff')
        if r.returncode != 0:
            # the pinned commit has since received fix: commits; try a 3-way apply
            r = sh(f'git -C {wt} apply --3way {d}/patch.diff')
        if r.returncode != 0:
            meta[KEY] = {'applies_to_current_tree': False, 'note': r.stdout[-300:]}
            return seed, meta
        os.makedirs(vd, exist_ok=True)
        shutil.copy('/verif/KNOWN_FINDINGS.txt', vd)
        r = sh(f'{BV} -repo {wt} -verif {vd} -prop all -nocache', timeout=2400)
        lines = r.stdout.splitlines()
        hits = [l[:420] for l in lines if 'VIOLATED [' in l or 'UNDECIDED [' in l]
        props = sorted({l.split('property=')[1].split()[0] for l in lines if l.startswith('VIOLATION')})
        rules = sorted({l.split('[')[1].split(']')[0] for l in hits})
        meta[KEY] = {'applies_to_current_tree': True, 'cmd': 'bvcheck -repo <patched worktree of /repo HEAD> -prop all -nocache',
                             'exit': r.returncode, 'properties_reporting': props, 'rules_reporting': rules, 'reports': hits[:8],
                             'detected': bool(props), 'detected_by_own_property': meta['property'] in props}
        return seed, meta
    finally:
        sh(f'git -C /repo worktree remove --force {wt}; rm -rf {wt} {vd}')

def main():
    args = sys.argv[1:]
    j = 2
    if args[:1] == ['-j']:
        j = int(args[1]); args = args[2:]
    seeds = args or sorted(os.path.basename(os.path.dirname(p)) for p in glob.glob('/verif/seeded/*/meta.json'))
    with cf.ThreadPoolExecutor(j) as ex:
        for seed, meta in ex.map(one, seeds):
            json.dump(meta, open(f'/verif/seeded/{seed}/meta.json', 'w'), indent=1)
            d = meta[KEY]
            print(seed, 'confirmed' if meta.get('confirmed') else 'UNCONFIRMED', 'detected' if d.get('detected') else 'missed', d.get('rules_reporting'), flush=True)
    sh('git -C /repo worktree prune')
    # matrix
    rows = []
    for p in sorted(glob.glob('/verif/seeded/*/meta.json')):
        m = json.load(open(p)); d = m.get('detection', {})
        rows.append((m['seed'], m['property'], 'yes' if m.get('confirmed') else 'no', 'yes' if d.get('detected') else ('n/a' if d.get('applies_to_current_tree') is False else 'no'), ', '.join(d.get('rules_reporting', []) or [])))
    with open('/verif/seeded/MATRIX.md', 'w') as f:
        f.write('| seed | property | confirmed | detected | reporting rules |\n|---|---|---|---|---|\n')
        for r in rows:
            f.write('| ' + ' | '.join(r) + ' |\n')
        det = sum(1 for r in rows if r[3] == 'yes'); conf = sum(1 for r in rows if r[2] == 'yes')
        f.write(f'\n{len(rows)} seeds kept, {conf} confirmed, {det} detected by at least one registered check.\n')
main()
