#!/usr/bin/env python3
"""gen_design_appendix.py: regenerate the machine-derived part of DESIGN.md (everything after the marker
line '<!-- GENERATED BELOW -->') from the committed evidence files, the self-test case files and the seeded
defects' meta.json. Hand-written text above the marker is left alone."""
import json, glob, os, re, collections

V = '/verif'
MARK = '<!-- GENERATED BELOW: tools/gen_design_appendix.py — do not edit by hand -->'

def split_expl(e):
    x = e['coverage']['explanation']
    m = re.search(r'DECIDES: (.*?) DOES NOT DECIDE: (.*)$', x, re.S)
    return (m.group(1).strip(), m.group(2).strip()) if m else (x, '')

def main():
    props = [json.loads(l) for l in open(f'{V}/properties.jsonl')]
    manifest = json.load(open(f'{V}/MANIFEST.json'))
    tech = {c['property_id']: c.get('technique', '') for c in manifest['checks']}
    cases = collections.defaultdict(list)
    for f in sorted(glob.glob(f'{V}/selftest/cases/*.json')):
        for c in json.load(open(f)):
            cases[c['property']].append(c)
    seeds = collections.defaultdict(list)
    for p in sorted(glob.glob(f'{V}/seeded/*/meta.json')):
        m = json.load(open(p))
        d = m.get('detection')
        if d and 'detected' not in d:
            # meta written by confirm_seed.py only (detect_seeds.py not re-run): derive the same keys from its bvcheck run
            d['properties_reporting'] = sorted({l.split('property=')[1].split()[0] for l in d.get('violation_lines') or []})
            d['rules_reporting'] = sorted({l.split('[')[1].split(']')[0] for l in d.get('reports', [])})
            d['detected'] = bool(d['properties_reporting'])
        seeds[m['property']].append(m)
    out = [MARK, '']
    out.append('## Appendix G — generated inventory: per property, what the check decides, its rules, self-tests and seeded changes')
    out.append('')
    out.append('Obligation counts are those of the committed `evidence/<id>.json` (quick tier, /repo HEAD). "floor" is the anti-vacuity')
    out.append('minimum: fewer obligations than that make the rule *undecided* (the check fails). Self-test cases live in')
    out.append('`selftest/cases/*.json`; seeded changes in `seeded/<seed>/`.')
    out.append('')
    tot_ob = tot_rules = tot_mut = tot_eq = 0
    for p in props:
        pid = p['id']
        ef = f'{V}/evidence/{pid}.json'
        if not os.path.exists(ef):
            continue
        e = json.load(open(ef))
        dec, ndec = split_expl(e)
        cov = e['coverage']
        out.append(f'### {pid} — {p["title"]}')
        out.append('')
        out.append(f'*Decides.* {dec}')
        out.append('')
        out.append(f'*Does not decide.* {ndec}')
        out.append('')
        out.append(f'*Technique.* {tech.get(pid, "")}')
        out.append('')
        out.append(f'{cov["obligations"]} obligations, {cov["discharged"]} discharged.')
        out.append('')
        out.append('| rule | obligations | floor | self-test mutants caught by it | equivalents (must stay silent) |')
        out.append('|---|---|---|---|---|')
        by_rule = collections.defaultdict(list)
        eqs = [c['id'] for c in cases[pid] if c['kind'] == 'equivalent']
        for c in cases[pid]:
            if c['kind'] == 'mutant':
                by_rule[c.get('expect_rule', '?')].append(c['id'])
        first = True
        for rule, rv in sorted(cov['rules'].items()):
            muts = by_rule.pop(rule, [])
            # a mutant may name a rule prefix (e.g. c04.write-atomic) - attach those too
            for k in list(by_rule):
                if rule.startswith(k) or k.startswith(rule):
                    muts += by_rule.pop(k)
            out.append(f'| `{rule}` | {rv["obligations"]} | {rv.get("floor", 0)} | {", ".join(muts) or "—"} | {", ".join(eqs) if first else ""} |')
            first = False
            tot_ob += rv['obligations']; tot_rules += 1
        for k, v in by_rule.items():
            out.append(f'| `{k}` (other property\'s rule) | | | {", ".join(v)} | |')
        tot_mut += sum(1 for c in cases[pid] if c['kind'] == 'mutant'); tot_eq += len(eqs)
        out.append('')
        if seeds[pid]:
            out.append('| seeded change | what it does | confirmed | reported by (final checker) | round 2 only: reported by the checker as it was before anyone looked at the seed |')
            out.append('|---|---|---|---|---|')
            for m in seeds[pid]:
                d = m.get('detection', {})
                title = ''
                rp = f'{V}/seeded/{m["seed"]}/README.md'
                if os.path.exists(rp):
                    for l in open(rp):
                        if l.startswith('#'):
                            title = re.sub(r'^#+\s*', '', l.strip()); title = re.sub(r'^C\d\d\s*[/—-]?\s*(seeded )?(defect|seed)\s*\d\s*[—:-]*\s*', '', title, flags=re.I)
                            break
                if d.get('applies_to_current_tree') is False:
                    rep = 'n/a (patch no longer applies to HEAD)'
                elif d.get('detected'):
                    rep = ', '.join(f'`{r}`' for r in d.get('rules_reporting', []))
                else:
                    rep = '**missed**'
                b = m.get('detection_before_round2_rules')
                if b is None:
                    base = ''
                elif b.get('detected'):
                    base = ', '.join(f'`{r}`' for r in b.get('rules_reporting', []))
                else:
                    base = 'missed'
                out.append(f'| {m["seed"]} | {title[:150]} | {"yes" if m.get("confirmed") else "no"} | {rep} | {base} |')
            out.append('')
    out.append(f'Totals: {tot_rules} rules, {tot_ob} obligations on HEAD; {tot_mut} self-test mutants, {tot_eq} equivalent refactorings.')
    allm = [m for v in seeds.values() for m in v]
    conf = [m for m in allm if m.get('confirmed')]
    det = [m for m in conf if m.get('detection', {}).get('detected')]
    out.append(f'Seeded changes: {len(allm)} kept, {len(conf)} confirmed, {len(det)} of the confirmed ones reported by at least one registered check.')
    r3 = [m for m in conf if '-r3-' in m['seed']]
    r4 = [m for m in conf if '-r4-' in m['seed']]
    conf = [m for m in conf if '-r3-' not in m['seed'] and '-r4-' not in m['seed']]
    r2 = [m for m in conf if 'detection_before_round2_rules' in m]
    r2b = [m for m in r2 if m['detection_before_round2_rules'].get('detected')]
    r2f = [m for m in r2 if m.get('detection', {}).get('detected')]
    r1 = [m for m in conf if 'detection_before_round2_rules' not in m]
    r1f = [m for m in r1 if m.get('detection', {}).get('detected')]
    out.append(f'Round 1: {len(r1)} confirmed, {len(r1f)} reported by the final checker (many of its rules were written after reading the round-1 misses).')
    out.append(f'Round 2 (fresh seeds): {len(r2)} confirmed; {len(r2b)} reported by the checker frozen before the seeds were looked at (the unbiased figure), {len(r2f)} by the final checker.')
    if r3:
        r3f = [m for m in r3 if m.get('detection', {}).get('detected')]
        out.append(f'Round 3 (fresh seeds against the then-final checker, no rule written in response to them): {len(r3)} confirmed, {len(r3f)} reported.')
    if r4:
        r4f = [m for m in r4 if m.get('detection', {}).get('detected')]
        out.append(f'Round 4 (fresh seeds against the final checker, no rule written in response to them): {len(r4)} confirmed, {len(r4f)} reported.')
    out.append('')
    d = open(f'{V}/DESIGN.md').read()
    head = d.split(MARK)[0].rstrip() + '\n\n'
    open(f'{V}/DESIGN.md', 'w').write(head + '\n'.join(out))
    print('appendix written:', tot_rules, 'rules', tot_ob, 'obligations')

main()
