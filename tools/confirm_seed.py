#!/usr/bin/env python3
"""confirm_seed.py <PROP> <N>: confirm a seeded defect produced by an independent sub-agent
(/tmp/seed/<PROP>_out/<N>/) in a fresh scratch worktree — demo passes without the patch, patch applies and
builds, demo fails with it, the touched packages' existing unit tests still pass — then run every registered
bvcheck property on the patched tree and record which rules report. Keeps it as /verif/seeded/<PROP>-<N>/.
The worktree and its build output are removed afterwards."""
import json, os, re, shutil, subprocess, sys, glob, time

PKGDIR = {'measure': 'banyand/measure', 'stream': 'banyand/stream', 'trace': 'banyand/trace', 'storage': 'banyand/internal/storage',
          'sidx': 'banyand/internal/sidx', 'fs': 'pkg/fs', 'sub': 'banyand/queue/sub', 'pub': 'banyand/queue/pub', 'snapshot': 'banyand/internal/snapshot',
          'timestamp': 'pkg/timestamp', 'partition': 'pkg/partition', 'node': 'pkg/node', 'db': 'banyand/property/db', 'bydbql': 'pkg/bydbql',
          'convert': 'pkg/convert', 'filter': 'pkg/filter', 'inverted': 'pkg/index/inverted', 'sort': 'pkg/iter/sort', 'aggregation': 'pkg/query/aggregation',
          'v1': 'pkg/pb/v1', 'sdk': 'pkg/pipeline/sdk', 'grpc': 'banyand/liaison/grpc', 'queue': 'banyand/queue', 'sampler': 'banyand/trace/sampler'}
SKIP = "^(TestMeasure|TestStream|TestTrace|TestInMergeFilter_.*|TestProperty|TestQueue|TestIntegration.*|TestGrpc|TestLoadSheddingIntegration|TestDynamicBufferSizingIntegration|TestLoadTestUnderMemoryPressure|TestPropertyRepairGossip|TestCacheClean|TestPub|TestSyncStreamingPartsDoesNotLeakReaperGoroutines)$"
ENV = dict(os.environ, GOFLAGS='-mod=mod', GOPROXY='off')

def sh(cmd, cwd=None, timeout=3600):
    t = time.time()
    p = subprocess.run(cmd, shell=True, cwd=cwd, env=ENV, stdout=subprocess.PIPE, stderr=subprocess.STDOUT, text=True, timeout=timeout)
    return p.returncode, p.stdout, time.time() - t

def main():
    prop, n = sys.argv[1], sys.argv[2]
    # SEED_ROOT / SEED_TAG select another seeding round (e.g. SEED_ROOT=/tmp/seed2 SEED_TAG=r2- -> /verif/seeded/C04-r2-1)
    root, tag = os.environ.get('SEED_ROOT', '/tmp/seed'), os.environ.get('SEED_TAG', '')
    src = f'{root}/{prop}_out/{n}'
    seed = f'{prop}-{tag}{n}'
    out = f'/verif/seeded/{seed}'
    wt = f'/tmp/cs_{seed}'
    readme = open(os.path.join(src, 'README.md')).read() if os.path.exists(os.path.join(src, 'README.md')) else ''
    meta = {'seed': seed, 'property': prop, 'round': 2 if tag else 1, 'source': 'independent sub-agent given only the property record and a scratch worktree', 'ran': []}
    sh(f'git -C /repo worktree remove --force {wt}; rm -rf {wt}')
    rc, o, _ = sh(f'/verif/tools/mkwt.sh {wt}')
    if rc != 0:
        print('mkwt failed', o); sys.exit(2)
    try:
        tests = sorted(glob.glob(os.path.join(src, '*_test.go')))
        placed, dirs, names = [], set(), []
        for t in tests:
            body = open(t).read()
            pk = re.search(r'^package (\w+)', body, re.M).group(1).replace('_test', '')
            d = PKGDIR.get(pk)
            m = re.search(r'(?:copy|place|put|goes)[^\n]*?`?((?:banyand|pkg)/[\w/]+)/?`?', readme)
            base = os.path.basename(t)
            # README mention of "<file> ... in <dir>" wins when the package name is ambiguous
            for mm in re.finditer(re.escape(base) + r'[^\n]{0,80}?((?:banyand|pkg)/[\w/]+)', readme):
                d = mm.group(1).rstrip('/')
                break
            if d is None and m:
                d = m.group(1)
            while d and not os.path.isdir(os.path.join(wt, d)):
                d = os.path.dirname(d)
            if not d:
                d = PKGDIR.get(pk)
            if d is None:
                print('cannot place', t); sys.exit(2)
            placed.append((t, os.path.join(d, base)))
            dirs.add(d)
            names += re.findall(r'^func (Test\w+)\(', body, re.M)
        run_re = '^(' + '|'.join(names) + ')$'
        demo_cmd = f"go test -p 4 -count=1 {' '.join('./' + d + '/' for d in sorted(dirs))} -run '{run_re}'"
        def place():
            for s, d in placed:
                shutil.copy(s, os.path.join(wt, d))
        def unplace():
            for s, d in placed:
                os.remove(os.path.join(wt, d))
        # 1. demo without patch
        place()
        rc, o, dt = sh(demo_cmd, wt)
        meta['ran'].append({'step': 'demo on the unpatched commit (must pass)', 'cmd': demo_cmd, 'exit': rc, 'seconds': round(dt), 'tail': o[-600:]})
        ok_unpatched = rc == 0
        # 2. patch + build
        rc, o, _ = sh(f'git apply {src}/patch.diff', wt)
        meta['ran'].append({'step': 'git apply patch.diff', 'exit': rc, 'tail': o[-300:]})
        if rc != 0:
            meta['confirmed'] = False; return meta, out, src
        touched = sorted({os.path.dirname(l[6:]) for l in open(f'{src}/patch.diff').read().splitlines() if l.startswith('+++ b/')})
        meta['touched_packages'] = touched
        rc, o, dt = sh('go build -p 8 ./banyand/... ./pkg/...', wt)
        meta['ran'].append({'step': 'go build with patch', 'exit': rc, 'seconds': round(dt), 'tail': o[-300:]})
        builds = rc == 0
        # 3. demo with patch
        rc, o, dt = sh(demo_cmd, wt)
        meta['ran'].append({'step': 'demo with the patch (must fail)', 'cmd': demo_cmd, 'exit': rc, 'seconds': round(dt), 'tail': o[-900:]})
        fails_patched = rc != 0
        unplace()
        # 4. existing tests of touched packages
        ex_cmd = f"go test -p 4 -count=1 {' '.join('./' + d + '/' for d in touched)} -skip '{SKIP}'"
        rc, o, dt = sh(ex_cmd, wt, timeout=5400)
        if rc != 0:  # timing-sensitive tests fail sporadically on a loaded machine: one retry
            rc, o, dt = sh(ex_cmd, wt, timeout=5400)
        meta['ran'].append({'step': 'existing unit tests of the touched packages with the patch (must pass; server-booting ginkgo suites cannot run in this sandbox and are skipped)', 'cmd': ex_cmd, 'exit': rc, 'seconds': round(dt), 'tail': o[-600:]})
        existing_pass = rc == 0
        meta['confirmed'] = bool(ok_unpatched and builds and fails_patched and existing_pass)
        meta['checks'] = {'demo_passes_unpatched': ok_unpatched, 'builds': builds, 'demo_fails_patched': fails_patched, 'existing_tests_pass_patched': existing_pass}
        # 5. detection by the registered checks (patched tree, no demo files)
        vd = wt + '_v'
        os.makedirs(vd, exist_ok=True)
        if os.path.exists('/verif/KNOWN_FINDINGS.txt'):
            shutil.copy('/verif/KNOWN_FINDINGS.txt', vd)
        rc, o, dt = sh(f'/verif/bin/bvcheck -repo {wt} -verif {vd} -prop all -nocache', timeout=1800)
        hits = [l for l in o.splitlines() if 'VIOLATED [' in l or 'UNDECIDED [' in l]
        meta['detection'] = {'cmd': 'bvcheck -repo <patched worktree> -prop all -nocache', 'exit': rc, 'reports': [h[:400] for h in hits][:12],
                             'detected_by_own_property': any(f'property={prop} ' in l for l in o.splitlines() if l.startswith('VIOLATION')),
                             'violation_lines': sorted({l for l in o.splitlines() if l.startswith('VIOLATION')})[:10] and sorted({l.split(' replay=')[0] for l in o.splitlines() if l.startswith('VIOLATION')})}
        shutil.rmtree(vd, ignore_errors=True)
        return meta, out, src
    finally:
        sh(f'git -C /repo worktree remove --force {wt}; rm -rf {wt} {wt}_v; git -C /repo worktree prune')

if __name__ == '__main__':
    meta, out, src = main()
    os.makedirs(out, exist_ok=True)
    for f in os.listdir(src):
        if f.endswith('.go') or f in ('patch.diff', 'README.md'):
            shutil.copy(os.path.join(src, f), out)
    # keep demo test files from being picked up by go tooling under /verif: rename *_test.go -> *_test.go.txt
    for f in os.listdir(out):
        if f.endswith('_test.go'):
            os.replace(os.path.join(out, f), os.path.join(out, f + '.txt'))
    json.dump(meta, open(os.path.join(out, 'meta.json'), 'w'), indent=1)
    print(meta['seed'], 'confirmed=', meta.get('confirmed'), meta.get('checks'), 'detected=', meta.get('detection', {}).get('violation_lines'))
