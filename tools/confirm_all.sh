#!/bin/bash
# confirm every seed under /tmp/seed/*_out that has no /verif/seeded/<P>-<N>/meta.json yet (2 at a time)
cd /verif
ls -d /tmp/seed/C*_out/[0-9] | while read d; do
  p=$(basename $(dirname $d) | sed 's/_out//'); n=$(basename $d)
  [ -f /verif/seeded/$p-$n/meta.json ] && grep -q '"confirmed": true' /verif/seeded/$p-$n/meta.json && continue
  echo "$p $n"
done | xargs -P 3 -L 1 sh -c 'python3 /verif/tools/confirm_seed.py $0 $1 2>&1 | tail -1'
