#!/bin/bash
# run every claimed check (quick) on /repo and leave evidence/<id>.json ready to commit
cd /verif
for id in $(/verif/bin/bvcheck -list | awk '{print $1}'); do ./check.sh $id quick | tail -1; done
