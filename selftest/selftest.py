#!/usr/bin/env python3
"""Checker self-test (both directions), for the author — not a registered check.

Each case in cases/*.json is a small source edit of /repo applied to a scratch git worktree under
/tmp (never to /repo): kind=mutant must make the named property's check report the named rule;
kind=equivalent (a behaviour-preserving refactoring) must leave it silent. Edits are
{file, find, replace} (literal, must match exactly once unless count given) or a unified diff in "patch".
Usage: selftest.py [-j N] [-k substring[,substring...]] [--keep]
"""
import json, os, subprocess, sys, glob, shutil, tempfile, argparse, concurrent.futures as cf

ROOT = os.path.dirname(os.path.abspath(__file__))
BV = '/verif/bin/bvcheck'

def sh(*a, **kw):
    try:
        return subprocess.run(a, stdout=subprocess.PIPE, stderr=subprocess.STDOUT, text=True, timeout=900, **kw)
    except subprocess.TimeoutExpired as e:
        class R: pass
        r = R(); r.returncode = 124; r.stdout = 'TIMEOUT ' + str(e)
        return r

def run_case(case, keep=False):
    wt = tempfile.mkdtemp(prefix='bvst_', dir='/tmp')
    os.rmdir(wt)
    vd = wt + '_v'
    try:
        r = sh('git', '-C', '/repo', 'worktree', 'add', '-f', '--detach', wt, 'HEAD')
        if r.returncode != 0:
            return case, 'ERROR', 'worktree: ' + r.stdout
        # carry uncommitted /repo edits? no: self-test is against HEAD
        for e in case.get('edits', []):
            p = os.path.join(wt, e['file'])
            s = open(p).read()
            n = s.count(e['find'])
            want = e.get('count', 1)
            if n != want:
                return case, 'ERROR', f"edit of {e['file']}: find string occurs {n} times, expected {want}: {e['find'][:60]!r}"
            s = s.replace(e['find'], e['replace'])
            open(p, 'w').write(s)
        if 'patch' in case:
            r = sh('git', '-C', wt, 'apply', '-', input=case['patch'])
            if r.returncode != 0:
                return case, 'ERROR', 'patch: ' + r.stdout
        os.makedirs(vd, exist_ok=True)
        if os.path.exists('/verif/KNOWN_FINDINGS.txt'):
            shutil.copy('/verif/KNOWN_FINDINGS.txt', vd)
        r = sh(BV, '-repo', wt, '-verif', vd, '-prop', case['property'], '-only', case['property'], '-nocache', '-tier', case.get('tier', 'quick'))
        out = r.stdout
        viol = [l for l in out.splitlines() if 'VIOLATED [' in l or 'UNDECIDED [' in l]
        if 'type error' in out and case.get('kind') == 'mutant' and not case.get('allow_type_errors'):
            return case, 'ERROR', 'mutant does not type-check:\n' + out[:1500]
        if case['kind'] == 'mutant':
            hit = [l for l in viol if ('[' + case['expect_rule'] + ']') in l and case.get('expect_text', '') in l]
            if r.returncode == 1 and hit:
                return case, 'CAUGHT', hit[0][:300]
            return case, 'MISSED', '\n'.join(viol[:5]) or out[-600:]
        else:
            if r.returncode == 0 and not viol:
                return case, 'SILENT', ''
            return case, 'FALSE-ALARM', '\n'.join(viol[:5]) or out[-600:]
    finally:
        if not keep:
            sh('git', '-C', '/repo', 'worktree', 'remove', '--force', wt)
            shutil.rmtree(wt, ignore_errors=True)
            shutil.rmtree(vd, ignore_errors=True)

def main():
    ap = argparse.ArgumentParser()
    ap.add_argument('-j', type=int, default=5)
    ap.add_argument('-k', default='')
    ap.add_argument('--keep', action='store_true')
    a = ap.parse_args()
    cases = []
    for f in sorted(glob.glob(os.path.join(ROOT, 'cases', '*.json'))):
        for c in json.load(open(f)):
            c['_file'] = os.path.basename(f)
            if any(k in c['id'] or k in c['property'] for k in a.k.split(',')):
                cases.append(c)
    ok = True
    res = []
    with cf.ThreadPoolExecutor(a.j) as ex:
        for case, verdict, info in ex.map(lambda c: run_case(c, a.keep), cases):
            good = verdict in ('CAUGHT', 'SILENT')
            ok &= good
            res.append((case['id'], case['kind'], verdict))
            print(f"{'ok  ' if good else 'FAIL'} {case['property']} {case['id']:<44} {case['kind']:<10} {verdict}  {info if not good or verdict=='CAUGHT' else ''}", flush=True)
    sh('git', '-C', '/repo', 'worktree', 'prune')
    n_m = sum(1 for r in res if r[1] == 'mutant'); c_m = sum(1 for r in res if r[2] == 'CAUGHT')
    n_e = sum(1 for r in res if r[1] == 'equivalent'); c_e = sum(1 for r in res if r[2] == 'SILENT')
    print(f"mutants caught {c_m}/{n_m}; equivalents silent {c_e}/{n_e}")
    json.dump({'mutants': n_m, 'caught': c_m, 'equivalents': n_e, 'silent': c_e, 'results': res}, open(os.path.join(ROOT, 'last_run.json'), 'w'), indent=1)
    sys.exit(0 if ok else 1)

main()
