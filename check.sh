#!/bin/bash
# check.sh <property-id> <quick|thorough>: decides the property's structural clauses on /repo's current
# working tree (static analysis only; nothing of /repo is executed) and writes evidence/<id>.json.
id=$1; tier=${2:-quick}
if [ ! -x /verif/bin/bvcheck ] || [ ! -x /verif/bin/pbgen ] || [ ! -x /verif/bin/protoc-gen-go ]; then
  /verif/setup.sh >/dev/null 2>&1 || { echo "setup failed"; /verif/setup.sh; exit 2; }
fi
exec /verif/bin/bvcheck -repo /repo -verif /verif -prop "$id" -tier "$tier"
