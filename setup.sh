#!/bin/bash
# Builds the checker offline from files on disk: pbgen (proto3 front end), protoc-gen-go (from the module
# cache), bvcheck. Needs go1.26.8 (pre-installed) and golang.org/x/tools v0.50.0 (module cache).
set -e
cd /verif/analyzer
export PATH=/opt/veriftools/go1.26.8/bin:$PATH GOTOOLCHAIN=local GOFLAGS=-mod=mod GOPROXY=off GOWORK=off GOSUMDB=off GONOSUMDB=* GONOSUMCHECK=1
mkdir -p /verif/bin /verif/evidence
go build -o /verif/bin/pbgen ./cmd/pbgen
go build -o /verif/bin/bvcheck ./cmd/bvcheck
go build -o /verif/bin/protoc-gen-go google.golang.org/protobuf/cmd/protoc-gen-go
echo "setup ok"
